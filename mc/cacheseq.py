"""Sequential store/drain/query histories on the real MetricCache (evx), shared by C02, C10, C17.

Covers what the two-thread harness cannot afford: long histories from non-initial states (passes over
the cache, refusal followed by drains, strategy bookkeeping across many operations).
"""
import math

from . import core, env, evx
from .cacheh import RefCache, INF


class Clock(object):
  def __init__(self):
    self.now = 1000.0

  def time(self):
    return self.now

  def sleep(self, dt):
    self.now += dt


def deepcanon(x, depth=0):
  """Generic canonical form of strategy-private state (generators -> frame locals)."""
  if depth > 6:
    return '...'
  if isinstance(x, (int, float, str, bytes, bool)) or x is None:
    return x
  if isinstance(x, (list, tuple)):
    return tuple(deepcanon(v, depth + 1) for v in x)
  if isinstance(x, (set, frozenset)):
    return tuple(sorted((deepcanon(v, depth + 1) for v in x), key=repr))
  if isinstance(x, dict):
    return tuple(sorted(((repr(k), deepcanon(v, depth + 1)) for k, v in x.items())))
  gi = getattr(x, 'gi_frame', 0)
  if gi != 0:
    if gi is None:
      return ('gen-finished',)
    return ('gen', gi.f_lasti, tuple(sorted((k, deepcanon(v, depth + 1)) for k, v in gi.f_locals.items()
                                            if k not in ('self',) and not callable(v))))
  return ('obj', type(x).__name__)


def canonical_name(m):
  """Reference normalisation for the harness's own (well-formed) tagged names: tags sorted by key."""
  if ';' not in m:
    return m
  name, rest = m.split(';', 1)
  return name + ''.join(';%s' % t for t in sorted(rest.split(';')))


class SeqCache(evx.System):
  def __init__(self, p):
    self.p = p
    self.metrics = p.get('metrics', ('m', 'n', 'o'))
    self.tss = p.get('tss', (1, 2, 3) if (p.get('lag') and 'c17' in p.get('oracles', ())) else (1, 2))
    if len(self.tss) == 3:
      self.metrics = tuple(self.metrics[:2])      # three timestamp kinds on two series: the alphabet keeps its size
    self.oracles = p.get('oracles', ('c02',))

  def reset(self):
    p = self.p
    settings = env.boot()
    env.reset_state()
    settings['CACHE_WRITE_STRATEGY'] = p['strategy']
    settings['MAX_CACHE_SIZE'] = p.get('max_cache') or INF
    settings['USE_FLOW_CONTROL'] = bool(p.get('flow'))
    settings['MIN_TIMESTAMP_LAG'] = p.get('lag', 0)
    env.apply_daemon_cache_limits(settings, p.get('conf_variant', 'base'))
    mx = p.get('max_cache')
    self.hard_max = INF if not mx else (mx * 1.05 if p.get('flow') else mx)
    import carbon.cache
    from carbon import events
    self.clock = Clock()
    if p.get('lag'):
      self.clock.now += 0.25
    carbon.cache.time = self.clock
    self.mod = carbon.cache
    self.pick = 0
    carbon.cache.choice = lambda seq: seq[self.pick % len(seq)]
    if 'c10' in self.oracles:
      env.private_conf()
      env.wire_writer_processor(settings)      # the daemon's wiring decides which handlers the cache's events have
    self.proc = carbon.cache.CacheFeedingProcessor()
    self.cache = self.proc.cache
    self.overflow = 0
    events.cacheOverflow.addHandler(self._ov)
    self.ref = RefCache(self.hard_max)
    self.n = 0
    self.reports = 0
    self.reported_overflow = 0
    # pass-discipline monitor (C17)
    self.members = None
    self.drained = frozenset()

  def _ov(self):
    self.overflow += 1

  def close(self):
    import time
    import random
    self.mod.time = time
    self.mod.choice = random.choice

  def enabled(self):
    evs = []
    for m in self.metrics:
      for ts in self.tss:
        evs.append(('store', m, ts))
    evs.append(('drain',))
    if self.p['strategy'] == 'random':
      evs.append(('drain2',))       # the other answer of the random source
    if self.p.get('lag'):
      evs.append(('tick',))
    if 'c02' in self.oracles:
      evs.append(('query', self.metrics[0]))
    if 'c10' in self.oracles and self.reports < 1:
      evs.append(('report',))
    if ('c02' in self.oracles or 'c10' in self.oracles) and self.p.get('extfull', True):
      from carbon import state
      if not state.cacheTooFull:
        # another buffer of the process (a relay client's send queue) reports "full" through the shared event
        evs.append(('extfull',))
    return evs

  def content(self):
    return {m: dict(v) for m, v in dict.items(self.cache) if v}

  def apply(self, ev):
    c = self.cache
    self.n += 1
    strat = self.p['strategy']
    if ev[0] == 'store':
      _, m, ts = ev
      # every other value is 0.0: a stored datapoint whose value is falsy is a datapoint all the same
      v = float(self.n) if self.n % 2 == 0 else 0.0
      before = self.overflow
      from carbon import instrumentation as _instr
      counted0 = _instr.stats.get('cache.overflow', 0)
      pre = (len(c), self.content(), sorted(dict.keys(c)))
      # timestamp 2 stands for "fresh": the current instant under a lag (not yet eligible), and a timestamp
      # AHEAD of the daemon's clock (a sender whose clock runs fast) without one - still to be handed out
      tsx = ts if ts != 2 else (self.clock.now if self.p.get('lag') else self.clock.now + 1000.0)
      if ts == 3:
        # half a second short of the lag, on a clock that does not sit on a whole second: not yet eligible
        tsx = self.clock.now - self.p['lag'] + 0.5
      try:
        self.proc.process(m, (tsx, v))
      except Exception as e:   # noqa
        return ('exception:%s:%s' % (strat, type(e).__name__), 'store%r raised %r' % (ev[1:], e))
      want = self.ref.store(canonical_name(m), tsx, v)
      got = self.overflow - before
      if got != want:
        return ('refusal', 'store(%s,%s) signalled overflow %d times, reference expects %d' % (m, tsx, got, want))
      counted = _instr.stats.get('cache.overflow', 0) - counted0
      if 'c10' in self.oracles and counted != want:
        return ('overflow-not-counted', 'store(%s,%s): %d refusal(s), but the cache.overflow counter of the wired daemon moved by %d' % (
          m, tsx, want, counted))
      if got and 'c10' in self.oracles:
        post = (len(c), self.content(), sorted(dict.keys(c)))
        if pre != post:
          return ('refusal-side-effect', 'refused store(%r,%r) changed the cache: metric count %d -> %d, '
                  'metrics %r -> %r' % (m, tsx, pre[0], post[0], pre[2], post[2]))
    elif ev[0] in ('drain', 'drain2'):
      self.pick = 1 if ev[0] == 'drain2' else 0
      snap = {m: (len(v), min(v) if v else None) for m, v in dict.items(c)}
      now = self.clock.now
      try:
        m, dps = c.drain_metric()
      except Exception as e:   # noqa
        return ('exception:%s:%s' % (strat, type(e).__name__), 'drain_metric raised %r' % (e,))
      if m is not None:
        want = self.ref.drain(m)
        if list(dps) != want:
          return ('conservation', 'drain returned %r for %s, reference holds %r' % (dps, m, want))
      elif dps:
        return ('conservation', 'drain returned (None, %r)' % (dps,))
      if 'c17' in self.oracles:
        v = self.drain_rules(m, dps, snap, now)
        if v:
          return v
    elif ev[0] == 'tick':
      self.clock.now += self.p['lag'] + 1
    elif ev[0] == 'report':
      # the instrumentation tick of a cache daemon: the real recordMetrics() reports and clears the counters and stores the
      # daemon's own statistics INTO THE CACHE - where they are refused like anything else when it is full (and those
      # refusals feed the counter that is being reported).  Only the cache_record() shim is replaced (harness identities).
      from carbon import instrumentation as instr
      from carbon.conf import settings
      self.reports += 1

      def shim(metric, value):
        if metric == 'cache.overflow':
          self.reported_overflow += value
        self.n += 1
        name = 'carbon.agents.verif-a.%s' % metric
        self.cache.store(name, (self.clock.now, float(self.n)))
        self.ref.store(name, self.clock.now, float(self.n))
      saved_rec, saved_prog = instr.cache_record, settings['program']
      instr.cache_record = shim
      settings['program'] = 'carbon-cache'
      try:
        instr.recordMetrics()
      except Exception as e:   # noqa
        return ('exception:%s:%s' % (strat, type(e).__name__), 'recordMetrics() raised %r' % (e,))
      finally:
        instr.cache_record = saved_rec
        settings['program'] = saved_prog
      counted = self.reported_overflow + instr.stats.get('cache.overflow', 0)
      if counted != self.overflow:
        return ('overflow-not-counted', '%d datapoints were refused so far (each raised the overflow signal), but the instrumentation ticks '
                'reported %d and the counter holds %d' % (self.overflow, self.reported_overflow, instr.stats.get('cache.overflow', 0)))
    elif ev[0] == 'extfull':
      from carbon import events
      try:
        events.cacheFull()
      except Exception as e:   # noqa
        return ('exception:%s:%s' % (strat, type(e).__name__), 'events.cacheFull() raised %r' % (e,))
    elif ev[0] == 'query':
      got = dict(c.get(ev[1], {}))
      if got != self.ref.query(ev[1]):
        return ('conservation', 'cache holds %r for %s, reference %r' % (got, ev[1], self.ref.query(ev[1])))
    return None

  def drain_rules(self, m, dps, snap, now):
    strat = self.p['strategy']
    lag = self.p.get('lag', 0)
    holders = [k for k, (n, _) in snap.items() if n]
    if m is not None and not dps and [k for k in holders if k != m]:
      return ('empty-drain:' + strat, 'drain returned (%r, []) while %r hold datapoints' % (m, holders))
    if m is not None and dps and strat in ('max', 'bucketmax'):
      mx = max(n for n, _ in snap.values())
      if snap[m][0] != mx:
        return ('not-max:' + strat, 'drain chose %r holding %d datapoints, maximum is %d (%r)' % (m, snap[m][0], mx, snap))
    if m is not None and dps and strat == 'timesorted' and lag:
      if not (now - snap[m][1] > lag):
        return ('lag:' + strat, 'drained %r whose oldest timestamp %r is not older than lag %r at %r' % (m, snap[m][1], lag, now))
    if strat in ('sorted', 'timesorted', 'naive'):
      if self.members is None:
        self.members = frozenset(k for k, (n, oldest) in snap.items()
                                 if n and (strat != 'timesorted' or not lag or now - oldest > lag))
        self.drained = frozenset()
      if m is None:
        self.members = None
        self.drained = frozenset()
      else:
        if m in self.drained and (self.members - self.drained):
          return ('pass-discipline:' + strat, '%r drained a second time while %r (present when the pass began) '
                  'still wait' % (m, sorted(self.members - self.drained)))
        self.drained = self.drained | {m}
        if self.members <= self.drained:
          self.members = None
          self.drained = frozenset()
    return None

  def check(self):
    c = self.cache
    content = self.content()
    if content != self.ref.frozen():
      return ('conservation', 'cache content %r differs from reference %r' % (content, self.ref.frozen()))
    total = sum(len(v) for v in content.values())
    if c.size != total:
      return ('size-drift', 'cache.size=%r while %d datapoints are held' % (c.size, total))
    if self.hard_max != INF and total > math.ceil(self.hard_max):
      return ('bound-exceeded', 'cache holds %d datapoints, hard limit %s' % (total, self.hard_max))
    return None

  def canon(self):
    c = self.cache
    from carbon import state
    # (which of the stored values are zero is part of the state: the alphabet has the value 0.0 in it)
    if tuple(self.oracles) == ('c02',):
      shape = tuple(sorted((m, tuple(sorted((t, x == 0) for t, x in v.items()))) for m, v in dict.items(c)))
    else:
      shape = tuple(sorted((m, tuple(sorted(v))) for m, v in dict.items(c)))
    try:
      priv = deepcanon({k: v for k, v in vars(c.strategy).items() if k != 'cache'}) if c.strategy else None
    except Exception:   # noqa
      priv = ('history', self.n)
    return (shape, tuple(c.new_metrics) if hasattr(c, 'new_metrics') else None, priv, state.cacheTooFull,
            self.members, self.drained, self.clock.now if self.p.get('lag') else None, self.reports,
            self.pending_counters())

  def pending_counters(self):
    # which counters are waiting in the table for the next instrumentation tick is part of the state once ticks are events
    if 'c10' not in self.oracles or self.reports >= 1:
      return None
    from carbon import instrumentation as instr
    return tuple(sorted(k for k, v in instr.stats.items() if v))

  def on_new_state(self):
    if 'c17' not in self.oracles:
      return None
    # with no new input, repeated draining hands out every cached datapoint (destructive probe)
    c = self.cache
    if self.p.get('lag'):
      self.clock.now += 10 ** 6      # without a lag, time plays no role: nothing may wait for the clock
    held = self.content()
    got = {}
    nones = 0
    for _ in range(4 * (len(dict.keys(c)) + 2) + 4):
      if not any(len(v) for v in dict.values(c)):
        break
      try:
        m, dps = c.drain_metric()
      except Exception as e:   # noqa
        return ('exception:%s:%s' % (self.p['strategy'], type(e).__name__),
                'drain_metric raised %r with %r still cached' % (e, self.content()))
      if m is None:
        nones += 1
        if nones > 2:
          break
        continue
      if not dps and any(len(v) for k, v in dict.items(c) if k != m):
        return ('empty-drain:' + self.p['strategy'], 'drain returned (%r, []) while %r hold datapoints'
                % (m, [k for k, v in dict.items(c) if v]))
      if m in got:
        return ('starvation:' + self.p['strategy'], 'quiescent draining returned %r twice' % m)
      got[m] = dict(dps)
    left = self.content()
    if left:
      return ('starvation:' + self.p['strategy'], 'with no new input, repeated draining never hands out %r' % (left,))
    if got != held:
      return ('conservation', 'quiescent draining returned %r, cache held %r' % (got, held))
    return None


def job(arg):
  p, depth = arg
  return evx.bfs(SeqCache(p), depth)


def run(ctx, oracles, depth, strategies, max_cache, flows=(False,), lags=(0,), metrics=('m', 'n', 'o')):
  from . import daemonconf
  jobs = []
  compared = differing = 0
  mcs = max_cache if isinstance(max_cache, (list, tuple)) else [max_cache]
  daemonconf.prefetch([(mc or INF, bool(flow), v) for mc in mcs for flow in flows for v in daemonconf.CACHE_VARIANTS])
  for strat in strategies:
    for mc in (max_cache if isinstance(max_cache, (list, tuple)) else [max_cache]):
      for flow in flows:
        # the same wanted limits spelled through [cache:<instance>] overrides: the daemon's real start-up
        # (postOptions) must arrive at the same effective settings; where it does not, that spelling is explored too
        variants = ['base']
        base_eff = daemonconf.cache_limits(mc or INF, bool(flow), 'base')
        for v in daemonconf.CACHE_VARIANTS[1:]:
          compared += 1
          if daemonconf.cache_limits(mc or INF, bool(flow), v) != base_eff:
            variants.append(v)
            differing += 1
        for lag in (lags if strat == 'timesorted' else (0,)):
          for v in variants:
            jobs.append(({'strategy': strat, 'max_cache': mc, 'flow': flow, 'lag': lag, 'oracles': oracles,
                          'metrics': metrics, 'conf_variant': v}, depth))
  ctx.add(startup_configurations={'instance_override_spellings_compared_with_base': compared,
                                  'spellings_with_other_effective_limits_explored_separately': differing})
  jobs = core.seeded_order(jobs, ctx.seed)
  res = core.pmap(job, jobs, chunksize=1)
  states = trans = 0
  exhausted = 0
  for (p, d), st in zip(jobs, res):
    states += st['states']
    trans += st['transitions']
    exhausted += 1 if st['exhausted'] else 0
    for key, what, hist in st['violations']:
      ctx.violation(key, '%s | sequential history %r strategy=%s max_cache=%s flow=%s lag=%s' % (
        what, hist, p['strategy'], p['max_cache'], p['flow'], '%s conf=%s' % (p['lag'], p.get('conf_variant'))),
        {'engine': 'evx-cacheseq', 'params': p, 'history': hist})
    if st['samples']:
      ctx.sample({'sequential_history': st['samples'][0], 'strategy': p['strategy'], 'max_cache': p['max_cache']})
  ctx.add(states=states, transitions=trans, traces_validated_against_impl=trans,
          sequential_bfs={'configurations': len(jobs), 'depth': depth, 'states': states, 'transitions': trans,
                          'frontier_exhausted_in': exhausted})


def replay(body):
  rep = body['replay']
  p = rep['params']
  p['oracles'] = tuple(p['oracles'])
  p['metrics'] = tuple(p['metrics'])
  s = SeqCache(p)
  s.reset()
  verdict = None
  for ev in rep['history']:
    ev = tuple(ev)
    verdict = s.apply(ev) or s.check()
    print('  %-22r -> cache=%r size=%r' % (ev, s.content(), s.cache.size))
    if verdict:
      break
  if not verdict:
    verdict = s.on_new_state()
  print('oracle:', verdict or 'holds')
  return 1 if verdict else 0
