"""Self-tests of the explorers (also MANIFEST.setup_cmd: nothing to build, this only proves that the
engines still find the bugs planted in their toy systems)."""
import sys


def main():
  failures = 0
  tests = []
  try:
    from . import selftests
    tests = selftests.ALL
  except ImportError:
    pass
  for t in tests:
    try:
      t()
      print('selftest %-40s ok' % t.__name__)
    except Exception as e:   # noqa
      import traceback
      traceback.print_exc()
      print('selftest %-40s FAILED: %s' % (t.__name__, e))
      failures += 1
  print('selftest: %d run, %d failed' % (len(tests), failures))
  return 2 if failures else 0
