"""Independent implementation of the published carbon_ch / fnv1a_ch consistent-hash ring.

Written from the algorithm description (graphite-web / carbon-c-relay compatible):
  * carbon_ch position  = first 4 hex digits of md5(key) as an integer (0..65535)
  * fnv1a_ch position   = 32-bit FNV-1a of the utf-8 key, folded: (h >> 16) ^ (h & 0xffff)
  * a node (server, instance) owns 100 replicas; replica i has key
        carbon_ch : "%s:%d" % ((server, instance), i)     -- the Python repr of the tuple
        fnv1a_ch  : "%d-%s" % (i, instance)
  * when a replica's position is already occupied it moves to the next free position (+1, repeated)
  * nodes are inserted in configuration order
  * lookup: bisect_left on (position, ()) wraps around; walking forward collects distinct nodes.
Nothing here imports carbon.
"""
import bisect
import hashlib

REPLICAS = 100


def fnv1a32(data):
  h = 0x811c9dc5
  for b in data:
    h ^= b
    h = (h * 0x01000193) & 0xffffffff
  return h


def position(key, hash_type):
  if hash_type == 'fnv1a_ch':
    h = fnv1a32(key.encode('utf-8'))
    return (h >> 16) ^ (h & 0xffff)
  return int(hashlib.md5(key.encode('utf-8')).hexdigest()[:4], 16)


def replica_key(node, i, hash_type):
  if hash_type == 'fnv1a_ch':
    return '%d-%s' % (i, node[1])
  return '%s:%d' % (node, i)


def build(nodes, hash_type):
  """Ring entries [(position, node)] sorted, for nodes inserted in the given order."""
  ring = []
  taken = set()
  for node in nodes:
    for i in range(REPLICAS):
      p = position(replica_key(node, i, hash_type), hash_type)
      while p in taken:
        p += 1
      taken.add(p)
      bisect.insort(ring, (p, node))
  return ring


def preference(ring, pos, nnodes):
  """Distinct nodes in ring-walk order starting at the first entry >= (pos, ())."""
  if not ring:
    return []
  idx = bisect.bisect_left(ring, (pos, ())) % len(ring)
  out = []
  seen = set()
  n = len(ring)
  for k in range(n):
    node = ring[(idx + k) % n][1]
    if node not in seen:
      seen.add(node)
      out.append(node)
      if len(out) == nnodes:
        break
  return out


def preference_table(ring, nnodes):
  """preference() for all 65536 positions, computed by one backwards sweep (fast path)."""
  if not ring:
    return [[] for _ in range(65536)]
  # positions p in (ring[i-1].pos, ring[i].pos] start at entry i
  starts = {}
  res = [None] * 65536
  n = len(ring)

  def pref_from(i):
    if i in starts:
      return starts[i]
    out = []
    seen = set()
    for k in range(n):
      node = ring[(i + k) % n][1]
      if node not in seen:
        seen.add(node)
        out.append(node)
        if len(out) == nnodes:
          break
    starts[i] = out
    return out
  for p in range(65536):
    i = bisect.bisect_left(ring, (p, ())) % n
    res[p] = pref_from(i)
  return res
