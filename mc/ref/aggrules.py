"""Reference for the documented aggregation-rule pattern language (no regular expressions).

  input pattern: dot separated parts;
    literal text        matches itself
    *  as a whole part  one or more characters without a dot
    *  inside a part    zero or more characters without a dot
    <field>             one or more characters without a dot, captured (may have literal pre/postfix)
    <<field>>           one or more characters, dots allowed, captured (may have literal pre/postfix)
  the pattern must match the WHOLE name; the aggregate name is the output template with <field>
  replaced by the captured text (first match in leftmost-shortest order, as a lazy matcher finds it).
Nothing here imports carbon.
"""


def tokenize(pattern):
  toks = []
  parts = pattern.split('.')
  for pi, part in enumerate(parts):
    if pi:
      toks.append(('lit', '.'))
    if '<<' in part and '>>' in part:
      i, j = part.find('<<'), part.find('>>')
      _lits(toks, part[:i])
      toks.append(('multi', part[i + 2:j]))
      _lits(toks, part[j + 2:])
      continue
    i, j = part.find('<'), part.find('>')
    if i > -1 and j > i:
      _lits(toks, part[:i])
      toks.append(('field', part[i + 1:j]))
      _lits(toks, part[j + 1:])
    elif part == '*':
      toks.append(('seg', None))
    else:
      _lits(toks, part, star=True)
  return toks


def _lits(toks, text, star=False):
  buf = ''
  for ch in text:
    if ch == '*' and star:
      if buf:
        toks.append(('lit', buf))
        buf = ''
      toks.append(('any', None))
    else:
      buf += ch
  if buf:
    toks.append(('lit', buf))


def match(pattern, name):
  """Returns dict of captured fields, or None."""
  toks = tokenize(pattern)

  def go(ti, pos, caps):
    if ti == len(toks):
      return caps if pos == len(name) else None
    kind, arg = toks[ti]
    if kind == 'lit':
      if name.startswith(arg, pos):
        return go(ti + 1, pos + len(arg), caps)
      return None
    if kind in ('seg', 'field', 'any'):
      lo = 0 if kind == 'any' else 1
      k = lo
      while pos + k <= len(name):
        if '.' in name[pos:pos + k]:
          break
        c2 = caps
        if kind == 'field':
          c2 = dict(caps)
          c2[arg] = name[pos:pos + k]
        r = go(ti + 1, pos + k, c2)
        if r is not None:
          return r
        k += 1
      return None
    if kind == 'multi':
      k = 1
      while pos + k <= len(name):
        c2 = dict(caps)
        c2[arg] = name[pos:pos + k]
        r = go(ti + 1, pos + k, c2)
        if r is not None:
          return r
        k += 1
      return None
    raise ValueError(kind)
  return go(0, 0, {})


def aggregate_name(input_pattern, output_pattern, name):
  caps = match(input_pattern, name)
  if caps is None:
    return None
  out = output_pattern
  for k, v in caps.items():
    out = out.replace('<%s>' % k, v)
  return out
