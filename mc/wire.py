"""Independent encoders/decoders for carbon's wire formats and a receiver rig (used by C01, C11, C12, C15).

Nothing here imports carbon's own encoders: lines are formatted with repr-exact floats, pickles are
assembled by mc.pk or by the standard pickle module with explicit protocols.
"""
import math
import pickle
import struct

from . import env


def fmt_num(x):
  """Shortest decimal text that float() maps back to exactly x (ints in plain decimal)."""
  if isinstance(x, int) and not isinstance(x, bool):
    return '%d' % x
  if x != x:
    return 'nan'
  if x == math.inf:
    return 'inf'
  if x == -math.inf:
    return '-inf'
  return repr(float(x))


def line(name, ts, value, sep=' ', end='\n'):
  return ('%s%s%s%s%s%s' % (name, sep, fmt_num(value), sep, fmt_num(ts), end)).encode('utf-8')


def pickle_frame(datapoints, protocol=2, container=list, pair=tuple):
  """[(name, (ts, value)), ...] in one length-prefixed pickle."""
  obj = container(pair((n, pair((ts, v)))) for n, ts, v in datapoints)
  body = pickle.dumps(obj, protocol=protocol)
  return struct.pack('!I', len(body)) + body

def _py2_str(b, protocol, style):
  """A python2 8-bit string as python2's pickler emits it (STRING / SHORT_BINSTRING / BINSTRING)."""
  if protocol == 0:
    esc = ''.join(chr(c) if 32 <= c < 127 and c not in (39, 92) else '\\x%02x' % c for c in b)
    return b"S'" + esc.encode('ascii') + b"'\n"
  if len(b) < 256 and style != 'long':
    return b'U' + bytes([len(b)]) + b
  return b'T' + struct.pack('<i', len(b)) + b


def _py2_num(x, protocol):
  if isinstance(x, int) and not isinstance(x, bool):
    if protocol == 0:
      return b'I%d\n' % x if -2 ** 63 <= x < 2 ** 63 else b'L%dL\n' % x
    if -2 ** 31 <= x < 2 ** 31:
      return b'J' + struct.pack('<i', x)
    if protocol == 2:
      raw = x.to_bytes((x.bit_length() + 8) // 8, 'little', signed=True)
      return b'\x8a' + bytes([len(raw)]) + raw
    return b'L%dL\n' % x
  if protocol == 0:
    return b'F' + fmt_num(float(x)).encode('ascii') + b'\n'
  return b'G' + struct.pack('>d', float(x))


def pickle_frame_py2(datapoints, protocol=2, style='short'):
  """The same message as a python2 client (carbon-relay on py2, old collectors) pickles it: metric names are
  8-bit strings holding UTF-8, assembled by hand opcode by opcode (no pickle module involved)."""
  assert protocol in (0, 1, 2)
  out = [b'\x80\x02'] if protocol == 2 else []
  out.append(b'(l' if protocol == 0 else b'](')
  for n, ts, v in datapoints:
    name = _py2_str(n.encode('utf-8'), protocol, style)
    if protocol == 2:
      item = name + _py2_num(ts, protocol) + _py2_num(v, protocol) + b'\x86\x86'
    else:
      item = b'(' + name + b'(' + _py2_num(ts, protocol) + _py2_num(v, protocol) + b't' + b't'
    out.append(item + (b'a' if protocol == 0 else b''))
  out.append(b'.' if protocol == 0 else b'e.')
  body = b''.join(out)
  return struct.pack('!I', len(body)) + body


class Rig(object):
  """Fresh real receiver on a StringTransport + recorder on events.metricReceived + error observer."""

  def __init__(self, kind, settings_overrides=None):
    self.kind = kind
    settings = env.boot()
    env.reset_state()
    settings['MIN_TIMESTAMP_RESOLUTION'] = 0
    settings['USE_FLOW_CONTROL'] = True
    settings['METRIC_CLIENT_IDLE_TIMEOUT'] = None
    for k, v in (settings_overrides or {}).items():
      settings[k] = v
    from carbon import events
    from carbon import protocols
    from twisted.internet.testing import StringTransport
    from twisted.python import log as tlog
    self.protocols = protocols
    self.delivered = []
    self._rec = lambda m, d: self.delivered.append((m, d[0], d[1]))
    events.metricReceived.addHandler(self._rec)
    self.events = events
    self.errors = []
    self._obs = lambda ev: self.errors.append(ev) if ev.get('isError') else None
    tlog.addObserver(self._obs)
    self.tlog = tlog
    cls = {'line': protocols.MetricLineReceiver, 'pickle': protocols.MetricPickleReceiver,
           'udp': protocols.MetricDatagramReceiver}[kind]
    self.proto = cls()
    self.transport = None
    if kind != 'udp':
      self.transport = StringTransport()
      self.proto.makeConnection(self.transport)

  def feed(self, data):
    """Returns the exception that escaped the handler, or None."""
    try:
      if self.kind == 'udp':
        self.proto.datagramReceived(data, ('127.0.0.1', 12345))
      else:
        self.proto.dataReceived(data)
    except Exception as e:   # noqa
      return e
    return None

  @property
  def closing(self):
    return bool(self.transport is not None and self.transport.disconnecting)

  def close(self):
    self.events.metricReceived.removeHandler(self._rec)
    try:
      self.tlog.removeObserver(self._obs)
    except ValueError:
      pass
    if self.transport is not None:
      from twisted.python.failure import Failure
      from twisted.internet.error import ConnectionDone
      try:
        self.proto.connectionLost(Failure(ConnectionDone()))
      except Exception:   # noqa
        pass


def same_number(a, b):
  """identical value: equal, same type class (float), same sign of zero"""
  if a != a or b != b:
    return a != a and b != b
  return a == b and math.copysign(1.0, a) == math.copysign(1.0, b)
