"""Harness around the real carbon writer loop (C03, C04, C20-writer).

Writer thread: the real ``carbon.writer.writeForever()`` with ``carbon.writer.reactor`` replaced by a
double and all clocks virtual.  Reactor thread: stores into the real MetricCache(), and for C04 the
real shutdown sequence (``shutdownModifyUpdateSpeed()`` = the "before shutdown" trigger, then
``reactor.running = False`` = Twisted's crash() in the "during" phase, then join = _stopThreadPool).
Backend: the in-memory ``verifmem`` plugin, whose failures are explorer data choices.
"""
import ast
import os
import re

from . import core, env, thrx
from .cacheh import VTime

INF = float('inf')
POLL_LIMIT = 16

_init_code = {}


def writer_bucket_init():
  """Compile the top-level statements of carbon/writer.py that initialise the rate-limit buckets, so
  that they can be re-executed (in the module's own namespace) for every execution."""
  path = os.path.join(env.REPO, 'lib', 'carbon', 'writer.py')
  if path not in _init_code:
    src = open(path).read()
    tree = ast.parse(src)
    keep = []
    for node in tree.body:
      seg = ast.get_source_segment(src, node) or ''
      if isinstance(node, (ast.Assign, ast.If, ast.AnnAssign)) and re.search(r'\b(CREATE_BUCKET|UPDATE_BUCKET)\b', seg):
        keep.append(node)
    if not keep:
      _init_code[path] = None
    else:
      mod = ast.Module(body=keep, type_ignores=[])
      _init_code[path] = compile(mod, path, 'exec')
  return _init_code[path]


def visible_lines(filename, funcs, pattern):
  """Line numbers inside the given functions whose text matches pattern (static reduction: the other
  lines of these functions touch only thread-local or single-thread-owned objects)."""
  src = open(filename).read()
  tree = ast.parse(src)
  lines = set()
  text = src.split('\n')
  rx = re.compile(pattern)
  for node in ast.walk(tree):
    if isinstance(node, ast.FunctionDef) and node.name in funcs:
      for ln in range(node.lineno, node.end_lineno + 1):
        if rx.search(text[ln - 1]):
          lines.add(ln)
  return lines


class ReactorDouble(object):
  """What carbon.writer needs of the reactor: `.running`.  With passes=N the flag reads True N times
  (C03: the writer makes N passes); with passes=None it is a plain attribute (C04)."""

  def __init__(self, passes=None):
    self._passes = passes
    self._running = True
    self.reads = 0

  @property
  def running(self):
    self.reads += 1
    if self._passes is not None:
      return self.reads <= self._passes
    return self._running

  @running.setter
  def running(self, v):
    self._running = v

  def callInThread(self, f, *a, **k):
    # the harness runs writeForever() in its own controlled thread; the request is only recorded
    self.in_thread = getattr(self, 'in_thread', []) + [getattr(f, '__name__', repr(f))]

  def addSystemEventTrigger(self, phase, event, f, *a, **k):
    self.triggers = getattr(self, 'triggers', []) + [(phase, event, f, a, k)]
    return None


class WriterHarness(thrx.Harness):
  horizon = 12000

  def __init__(self, p):
    self.p = p
    self.elog = []        # single event log in real order
    self.stored = []      # (metric, ts, value, returned_before_stop)
    self.stop_initiated = False
    self.writer_exc = None

  def visible(self):
    lib = os.path.join(env.REPO, 'lib', 'carbon')
    wpath = os.path.join(lib, 'writer.py')
    pat = self.p.get('line_pattern', r'cache|reactor|sleep')
    vis = {os.path.join(lib, 'cache.py'): None}
    if self.p.get('all_writer_lines'):
      vis[wpath] = {'writeCachedDataPoints', 'writeForever'}
    else:
      vis[wpath] = {'funcs': {'writeCachedDataPoints', 'writeForever', 'shutdownModifyUpdateSpeed'},
                    'lines': visible_lines(wpath, {'writeCachedDataPoints', 'writeForever', 'shutdownModifyUpdateSpeed'}, pat)}
    if self.p.get('see_buckets'):
      vis[os.path.join(lib, 'util.py')] = {'drain', 'peek', 'setCapacityAndFillRate'}
    if any(op[0] == 'query' for op in self.p.get('reactor', ())):
      vis[os.path.join(lib, 'protocols.py')] = {'stringReceived'}
    if any(op[0] == 'report' for op in self.p.get('reactor', ())):
      vis[os.path.join(lib, 'instrumentation.py')] = {'recordMetrics'}
    return vis

  def setup(self, s):
    p = self.p
    settings = env.boot()
    env.reset_state()
    settings['CACHE_WRITE_STRATEGY'] = p['strategy']
    settings['MAX_CACHE_SIZE'] = p.get('max_cache') or INF
    settings['USE_FLOW_CONTROL'] = bool(p.get('flow'))
    settings['MIN_TIMESTAMP_LAG'] = p.get('lag', 0)
    settings['MAX_CREATES_PER_MINUTE'] = p.get('max_creates', INF)
    settings['MAX_UPDATES_PER_SECOND'] = p.get('max_updates', INF)
    settings.pop('MAX_UPDATES_PER_SECOND_ON_SHUTDOWN', None)
    if p.get('updates_on_shutdown') is not None:
      settings['MAX_UPDATES_PER_SECOND_ON_SHUTDOWN'] = p['updates_on_shutdown']
    env.apply_daemon_cache_limits(settings)
    self.settings = settings
    import carbon.util
    import carbon.cache
    import carbon.writer
    from carbon import state, instrumentation
    from .doubles.verifmem import VerifMemDatabase
    self.vt = VTime(s)
    self.saved = (carbon.util.time, carbon.util.sleep, carbon.cache.time, carbon.writer.time,
                  carbon.writer.reactor, instrumentation.increment, state.database)
    carbon.util.time = s.time
    carbon.util.sleep = s.sleep
    # Busy waits made visible: code that polls the clock (token bucket peek) in a loop without sleeping waits for real
    # time to pass.  On a frozen virtual clock that loop never ends, so once the clock has been read POLL_LIMIT times
    # in a row at the same virtual instant, every further read lets one second pass (always a legitimate behaviour of a
    # real clock; code that does not poll never reaches the limit: the clean tree's state/transition counts are unchanged).
    self.polls = [None, 0, 0]          # [instant, reads at that instant, max over the execution]
    self.poll_jumps = 0

    def polled_time():
      k = self.polls
      if k[0] != s.now:
        k[0], k[1] = s.now, 0
      k[1] += 1
      if k[1] > k[2]:
        k[2] = k[1]
      if k[1] > POLL_LIMIT:
        s.now += 1.0
        self.poll_jumps += 1
        k[0], k[1] = s.now, POLL_LIMIT      # keep jumping on every further read until something sleeps
      return s.now
    if not p.get('clock_jumps'):
      carbon.util.time = polled_time
    if p.get('clock_jumps'):
      # a real clock moves between two reads inside one operation: when the token bucket's blocking drain reads the
      # clock again after peek(), the explorer may let two token-times pass first (the thread was descheduled)
      import sys as _sys

      def util_time():
        t = s.time()
        f = _sys._getframe(1)
        if f.f_code.co_name == 'drain' and 'self' in f.f_locals and s.choose(2, ('clock-jump', 'drain')):
          s.now += 2.0 / f.f_locals['self'].fill_rate
          return s.now
        return t
      carbon.util.time = util_time
    carbon.cache.time = self.vt
    carbon.writer.time = self.vt
    self.saved_choice = carbon.cache.choice
    carbon.cache.choice = lambda seq: seq[s.choose(len(seq), 'random')]
    code = writer_bucket_init()
    if code is None:
      import importlib
      importlib.reload(carbon.writer)
      carbon.writer.time = self.vt
    else:
      exec(code, carbon.writer.__dict__)
    self.reported = {}
    self.reports = 0
    if p.get('max_cache'):
      import math
      hard = p['max_cache'] * 1.05 if p.get('flow') else p['max_cache']
      limit = math.ceil(hard)

      def at_point(sched):
        total = sum(map(len, dict.values(self.cache)))
        if total > limit:
          return ('bound-exceeded', 'cache holds %d datapoints, hard limit %s' % (total, hard))
        return None
      s.at_point = at_point
    # a lock of the library that both threads take must be the scheduler's (a real one would block the baton holder)
    self.saved_stats_lock = getattr(instrumentation, 'stats_lock', None)
    if self.saved_stats_lock is not None:
      instrumentation.stats_lock = thrx.SchedLock(s)
    self.reactor = ReactorDouble(p.get('passes'))
    carbon.writer.reactor = self.reactor
    self.rcalls = []
    self.receiver = None
    if p.get('receiver'):
      # a cache daemon under flow control with one client connected: the daemon's own wiring (setupWriterProcessor) pauses
      # and resumes it; calls handed to the reactor thread (callFromThread / blockingCallFromThread) are served by the
      # harness's reactor thread between its steps - and no longer once the orderly stop has begun to join the thread pool
      env.wire_writer_processor(settings)
      from carbon.protocols import MetricLineReceiver
      from twisted.internet.testing import StringTransport
      self.receiver = MetricLineReceiver()
      self.rx_transport = StringTransport()
      self.receiver.makeConnection(self.rx_transport)
      env.REACTOR_MODEL[0] = self
    self.service = None
    if p.get('service_stop'):
      # the daemon's own service object: what it registers at start-up is what the orderly stop will run
      from twisted.internet.task import Clock
      self.service = carbon.writer.WriterService()
      for task in (self.service.storage_reload_task, self.service.aggregation_reload_task):
        task.clock = Clock()
      self.service.startService()
      if 'writeForever' not in getattr(self.reactor, 'in_thread', []):
        raise core.HarnessError('WriterService.startService() did not start the writer thread')
      if p.get('reload_task_dead'):
        # a reload tick has failed for good earlier (e.g. SystemExit out of loadStorageSchemas on an invalid edit):
        # twisted stops a LoopingCall whose function raised
        self.service.storage_reload_task.stop()
    self.writer = carbon.writer
    self.sched = s
    budget = {'n': 0}

    def fault(op, metric):
      if not p.get('faults'):
        return False
      return bool(s.choose(2, ('fault', op, metric)))
    self.db = VerifMemDatabase(files=p.get('files', ()), fault=fault, clock=s.time, log=self.elog)
    state.database = self.db
    real_increment = self.saved[5]

    def increment(stat, increase=1):
      self.elog.append(('stat', stat, increase))
      real_increment(stat, increase)
    instrumentation.increment = increment
    self.capture = env.LogCapture()
    orig = self.capture.__call__

    def observer(event):
      if event.get('isError'):
        f = event.get('failure')
        self.elog.append(('err', repr(f.value) if f is not None else str(event.get('message'))))
    self.observer = observer
    from twisted.python import log as tlog
    tlog.addObserver(observer)
    self.cache = carbon.cache.MetricCache()
    self.lock = thrx.replace_locks(self.cache, s)
    real_drain = self.cache.drain_metric

    def drain_metric():
      r = real_drain()
      self.elog.append(('drain', r[0], list(r[1])))
      return r
    self.cache.drain_metric = drain_metric
    for m, ts, v in p.get('init', ()):
      self.cache.store(m, (ts, v))
      self.stored.append((m, ts, v, True))
    self.tw = s.spawn('writer', self.writer_body)
    self.tr = s.spawn('reactor', self.reactor_body)
    s.state_fp = self.fingerprint

  def fingerprint(self):
    c = self.cache
    return (c.size, self.lock.owner, dict.__repr__(c), len(self.elog), self.reactor._running)

  def teardown(self, s):
    import carbon.util
    import carbon.cache
    import carbon.writer
    from carbon import state, instrumentation
    from twisted.python import log as tlog
    (carbon.util.time, carbon.util.sleep, carbon.cache.time, carbon.writer.time,
     carbon.writer.reactor, instrumentation.increment, state.database) = self.saved
    carbon.cache.choice = self.saved_choice
    env.REACTOR_MODEL[0] = None
    from twisted.python import threadable
    if getattr(self, 'saved_io_thread', None) is not None:
      threadable.ioThread = self.saved_io_thread
    if getattr(self, 'saved_stats_lock', None) is not None:
      instrumentation.stats_lock = self.saved_stats_lock
    try:
      tlog.removeObserver(self.observer)
    except ValueError:
      pass

  # ---- thread bodies ------------------------------------------------------------------------------
  def writer_body(self):
    try:
      self.writer.writeForever()
    except thrx.Abort:
      raise
    except Exception as e:   # noqa
      self.writer_exc = e
    self.elog.append(('writer-exit',))

  # ---- the reactor thread as the place where handed-over calls run ------------------------------------------------
  def blocking_call(self, f, a, k):
    s = self.sched
    if s.me() is self.tr:
      return f(*a, **k)
    box = {'done': False}
    self.rcalls.append((f, a, k, box))
    s.block(lambda: box['done'], ('blocking-call-from-thread',))
    if 'exc' in box:
      raise box['exc']
    return box.get('result')

  def call_from_thread(self, f, a, k):
    if self.sched.me() is self.tr:
      return f(*a, **k)
    self.rcalls.append((f, a, k, {'done': False}))

  def serve(self):
    while self.rcalls:
      f, a, k, box = self.rcalls.pop(0)
      try:
        box['result'] = f(*a, **k)
      except Exception as e:   # noqa
        box['exc'] = e
      box['done'] = True

  def reactor_body(self):
    s = self.sched
    if self.receiver is not None:
      from twisted.python import threadable
      self.saved_io_thread = threadable.ioThread
      threadable.registerAsIOThread()
    for op in self.p['reactor']:
      if self.receiver is not None:
        s.point(('op', 'reactor-loop'))
        self.serve()
      if op[0] == 'store':
        _, m, ts, v = op
        s.point(('op', 'store', m, ts))
        self.cache.store(m, (ts, v))
        self.stored.append((m, ts, v, not self.stop_initiated))
      elif op[0] == 'advance':
        s.now += op[1]
      elif op[0] == 'query':
        # graphite-web's CarbonLink asks the cache query port about a series (cached or not), on the reactor thread
        s.point(('op', 'query', op[1]))
        import pickle
        import struct
        from carbon.protocols import CacheManagementHandler
        from twisted.internet.testing import StringTransport
        h = CacheManagementHandler()
        h.makeConnection(StringTransport())
        body = pickle.dumps({'type': 'cache-query', 'metric': op[1]}, protocol=2)
        try:
          h.dataReceived(struct.pack('!L', len(body)) + body)
        except thrx.Abort:
          raise
        except Exception as e:   # noqa
          self.elog.append(('err', 'cache query raised %r' % (e,)))
      elif op[0] == 'report':
        # the reactor thread's periodic instrumentation tick, the real recordMetrics(): it reports and clears the counters
        # the writer thread is incrementing.  Only the cache_record() shim is replaced (the self-metrics are collected
        # instead of being stored into the cache under test).
        s.point(('op', 'report'))
        from carbon import instrumentation as instr
        self.settings['program'] = 'carbon-cache'

        def shim(metric, value):
          if isinstance(value, (int, float)):
            self.reported[metric] = self.reported.get(metric, 0) + value
        saved_rec = instr.cache_record
        instr.cache_record = shim
        before = {k: v for k, v in instr.stats.items() if not isinstance(v, list)}
        try:
          instr.recordMetrics()
        finally:
          instr.cache_record = saved_rec
          self.settings['program'] = 'carbon-verif'
        self.reports += 1
        self.elog.append(('report', before, {k: v for k, v in self.reported.items() if k in before},
                          {k: v for k, v in instr.stats.items() if not isinstance(v, list)}))
      elif op[0] == 'stop':
        s.point(('op', 'stop-initiated'))
        self.stop_initiated = True
        self.elog.append(('stop-initiated',))
        if self.service is not None:
          # twisted's orderly stop: the 'before shutdown' triggers in registration order - those the service registered
          # when it started, then the application's stopService (registered by twistd after start-up); a trigger that
          # raises is logged and the others still run
          from twisted.python import log as tlog
          trigs = [(f, a, k) for ph, ev, f, a, k in getattr(self.reactor, 'triggers', []) if (ph, ev) == ('before', 'shutdown')]
          for f, a, k in trigs + [(self.service.stopService, (), {})]:
            try:
              f(*a, **k)
            except Exception:   # noqa
              self.elog.append(('trigger-raised', getattr(f, '__name__', repr(f))))
        else:
          self.writer.shutdownModifyUpdateSpeed()
        s.point(('op', 'crash'))
        self.serve()
        self.reactor.running = False
        s.join(self.tw)            # twisted joins the thread pool here: the reactor thread serves no calls while it waits

  # ---- verdict --------------------------------------------------------------------------------------
  def outcome(self, s):
    return (tuple(e for e in self.elog if e[0] in ('drain', 'write', 'create', 'exists', 'stat', 'err', 'stop-initiated', 'writer-exit')),
            dict.__repr__(self.cache), s.deadlock)

  def obligations(self, s):
    ev = self.elog
    return {
      'write_ok': any(e[0] == 'write' and e[2] == 'ok' for e in ev),
      'fault_injected': any(e[0] in ('write', 'create', 'exists') and e[2] == 'raise' for e in ev),
      'dropped_create': any(e[0] == 'stat' and e[1] == 'droppedCreates' for e in ev),
      'store_after_first_drain': self._store_during_writer(),
      'writer_slept_before_stop': any(e == ('stop-initiated',) for e in ev),
    }

  def _store_during_writer(self):
    return any(e[0] == 'drain' for e in self.elog) and len(self.stored) > len(self.p.get('init', ()))

  def verdict(self, s):
    if s.horizon_hit or s.deadlock:
      return None
    if self.writer_exc is not None:
      return ('writer-crash', 'writeForever() raised %r' % (self.writer_exc,))
    if tuple(self.p.get('oracles', ())) == ('c10',):
      return None       # only the bound is judged here (at every scheduling point); the accounting is C03's business
    return self.accounting(final_must_be_empty='c04' in self.p.get('oracles', ()))

  def accounting(self, final_must_be_empty):
    ev = self.elog
    # split the log into segments, one per drained non-empty batch
    batches = []
    cur = None
    loose = []      # events before the first batch / not belonging to any batch
    for e in ev:
      if e[0] == 'drain':
        if e[1] is not None and e[2]:
          cur = {'metric': e[1], 'points': list(e[2]), 'events': []}
          batches.append(cur)
        else:
          cur = None
        continue
      (cur['events'] if cur is not None else loose).append(e)
    seen_points = {}
    for b in batches:
      for ts, v in b['points']:
        k = (b['metric'], ts)
        if k in seen_points and seen_points[k] == v:
          return ('duplicate-drain', 'datapoint %r=%r handed out by two drains' % (k, v))
        seen_points[k] = v
    stats = {}
    for e in ev:
      if e[0] == 'stat':
        stats[e[1]] = stats.get(e[1], 0) + e[2]
    writes_ok = 0
    raising = 0
    for e in loose:
      if e[0] == 'write':
        return ('unmatched-write', 'write(%r, %r) without a drained batch' % (e[1], e[4]))
    for b in batches:
      m, pts = b['metric'], b['points']
      writes = [e for e in b['events'] if e[0] == 'write']
      dropped = sum(e[2] for e in b['events'] if e[0] == 'stat' and e[1] == 'droppedCreates')
      errs = [e for e in b['events'] if e[0] == 'err']
      if len(writes) > 1:
        return ('double-write', 'batch %r of %s followed by %d write calls' % (pts, m, len(writes)))
      if writes:
        w = writes[0]
        if w[1] != m:
          return ('wrong-metric', 'batch drained for %s written under %s' % (m, w[1]))
        if sorted(w[4]) != sorted(pts):
          return ('wrong-points', 'batch %r of %s written as %r' % (pts, m, w[4]))
        if w[2] == 'ok':
          writes_ok += len(w[4])
          if not w[5]:
            return ('write-before-create', 'write(%s) succeeded although the file did not exist' % m)
          if dropped:
            return ('double-account', 'batch of %s both written and counted as dropped' % m)
        else:
          raising += 1
          if not errs:
            return ('silent-error', 'write(%s) failed but no error was reported' % m)
      elif dropped:
        if dropped != 1:
          return ('double-account', 'batch of %s counted %d times as dropped' % (m, dropped))
      elif errs:
        # an exception escaped the pass while this batch was in flight and writeForever reported it.  The statement
        # allows that disposition "when the backend failed" - not for an exception of the writer's own making
        if not any(e[0] in ('exists', 'create', 'write') and e[2] == 'raise' for e in b['events']):
          return ('lost-without-backend-failure', 'batch %r drained for %s was lost to an exception although no backend call '
                  'failed (events after the drain: %r)' % (pts, m, b['events'][:6]))
      else:
        return ('silent-drop', 'batch %r drained for %s was neither written nor counted as dropped nor '
                'reported as an error (events after the drain: %r)' % (pts, m, b['events'][:6]))
    if self.reports:
      # counters survive the instrumentation tick: what the ticks reported plus what is still in the counter table is
      # what was counted
      from carbon import instrumentation as instr
      for cname in ('droppedCreates', 'errors', 'creates', 'committedPoints'):
        visible = self.reported.get(cname, 0) + instr.stats.get(cname, 0)
        if visible != stats.get(cname, 0):
          return ('counter-lost', '%s was incremented by %r in total, but the instrumentation ticks reported %r and the counter table '
                  'holds %r' % (cname, stats.get(cname, 0), self.reported.get(cname, 0), instr.stats.get(cname, 0)))
    if stats.get('committedPoints', 0) != writes_ok:
      return ('miscount', 'committedPoints=%r but %d datapoints were successfully written' % (
        stats.get('committedPoints', 0), writes_ok))
    creates_ok = sum(1 for e in ev if e[0] == 'create' and e[2] == 'ok')
    creates_bad = sum(1 for e in ev if e[0] == 'create' and e[2] == 'raise')
    if stats.get('creates', 0) != creates_ok:
      return ('miscount', 'creates=%r but %d files were created' % (stats.get('creates', 0), creates_ok))
    if stats.get('errors', 0) != creates_bad + raising:
      return ('miscount', 'errors=%r but %d creates and %d writes failed' % (stats.get('errors', 0), creates_bad, raising))
    # conservation: every stored datapoint is still cached or was handed out by exactly one drain
    cached = {(m, ts): v for m, d in dict.items(self.cache) for ts, v in d.items()}
    last = {}
    for m, ts, v, _ in self.stored:
      last[(m, ts)] = v
    for k in last:
      if k not in cached and k not in seen_points:
        return ('lost', 'stored datapoint %r is neither cached nor in any drained batch' % (k,))
    if final_must_be_empty:
      # C04: everything accepted before the stop was initiated has been handed to the backend or accounted
      pending = [(m, ts) for m, ts, v, before in self.stored if before and (m, ts) in cached]
      if pending:
        return ('unwritten-at-exit', 'writer thread exited with %r (accepted before the stop) still in the cache' % (pending,))
    return None


def make(params):
  return WriterHarness(params)


def _phase1(arg):
  (params, bounds), big = arg
  if big:
    return thrx.plan((make, params, bounds, 24, 3))
  st = thrx.explore(make, params, bounds, fanout=10 ** 9)
  return st, []


TSMAP = {1: 1.75, 2: 1.25, 3: 1.5}


def fractional_timestamps(params):
  """Timestamps are opaque to the cache and the writer except for their order (and, under MIN_TIMESTAMP_LAG, their
  distance from the clock).  Jobs without a lag therefore use sub-second timestamps that share one whole second and
  arrive newest-first where the program says 1 then 2: anything that compares or keys on int(timestamp) shows."""
  if params.get('lag') or params.get('integer_timestamps'):
    return params
  def conv(op):
    if isinstance(op, (list, tuple)) and len(op) >= 3 and op[0] == 'store':
      return (op[0], op[1], TSMAP.get(op[2], op[2])) + tuple(op[3:])
    return op
  out = dict(params)
  out['init'] = [(m, TSMAP.get(ts, ts), v) for m, ts, v in params.get('init', ())]
  out['reactor'] = [conv(op) for op in params.get('reactor', ())]
  return out


def run_jobs(ctx, jobs, prop, required):
  jobs = [(fractional_timestamps(j[0]), j[1]) for j in jobs]
  jobs = core.seeded_order(jobs, ctx.seed)
  from . import daemonconf
  daemonconf.prefetch([(j[0].get('max_cache') or INF, bool(j[0].get('flow')), 'base') for j in jobs])
  phase1 = core.pmap(_phase1, [(j, j[1][0] + j[1][1] >= 2) for j in jobs], chunksize=1)
  results = [None] * len(jobs)
  tasks = []
  for i, (st, sub) in enumerate(phase1):
    results[i] = st
    for t in sub:
      tasks.append((i, t))
  thrx.explore_tasks(tasks, cap=300, on_result=lambda i, st: thrx.merge(results[i], st))
  tot = {'executions': 0, 'steps': 0, 'states': 0, 'outcomes': 0, 'deadlocks': 0, 'horizon': 0, 'obligations': {}}
  single = 0
  for (params, bounds), st in zip(jobs, results):
    fp = st['fingerprints']
    tot['states'] += len(fp) if isinstance(fp, set) else fp
    for k in ('executions', 'steps', 'deadlocks', 'horizon'):
      tot[k] += st[k]
    tot['outcomes'] += len(st['outcomes'])
    if len(st['outcomes']) < 2:
      single += 1
    for k, v in st['obligations'].items():
      tot['obligations'][k] = tot['obligations'].get(k, 0) + v
    for key, what, rep in st['violations']:
      ctx.violation(key, '%s | %s' % (what, {k: v for k, v in params.items() if k not in ('oracles',)}),
                    {'engine': 'thrx-writer', 'params': params, 'choices': rep['choices'], 'labels': rep['labels'][-40:]})
    if st['samples']:
      ctx.sample({'params': {k: params[k] for k in ('strategy', 'reactor') if k in params}, 'bounds': bounds,
                  'schedule': st['samples'][0]['choices'], 'outcome': st['samples'][0]['outcome'][:200]})
  if tot['horizon']:
    raise core.HarnessError('%s: step horizon hit in %d executions - exploration not exhaustive' % (prop, tot['horizon']))
  for k in required:
    if not tot['obligations'].get(k):
      raise core.HarnessError('%s: coverage obligation %s never met - vacuous exploration' % (prop, k))
  ctx.add(states=tot['states'], transitions=tot['steps'], traces_validated_against_impl=tot['executions'],
          executions=tot['executions'], explorations=len(jobs), distinct_outcomes=tot['outcomes'],
          obligations_met=tot['obligations'], explorations_with_single_outcome=single, deadlocks=tot['deadlocks'],
          space_digest=core.digest(sorted(repr(j) for j in jobs)))
  return tot


def replay_schedule(path):
  import json
  body = json.load(open(path))
  rep = body['replay']
  params = rep['params']
  params['init'] = [tuple(x) for x in params.get('init', [])]
  params['reactor'] = [tuple(x) for x in params['reactor']]
  params['oracles'] = tuple(params.get('oracles', ()))
  params['files'] = tuple(params.get('files', ()))
  out = []
  for _ in range(2):
    s, h = thrx.run_one(make, params, rep['choices'], keep_trace=True)
    out.append((h.outcome(s), h.verdict(s) or (('deadlock', 'deadlock') if s.deadlock else None)))
  if out[0] != out[1]:
    print('NONDETERMINISTIC replay')
    return 2
  print('params:', params)
  print('schedule:', rep['choices'])
  for e in h.elog:
    print('   ', e)
  print('final cache:', dict(h.cache))
  print('oracle:', out[0][1] or 'holds')
  return 1 if out[0][1] else 0
