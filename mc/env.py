"""Environment control for the carbon model-checking harnesses.

Everything here runs against the *current working tree* of the repository
(``/repo/lib`` or ``$VERIF_REPO/lib``); nothing is copied or cached.
"""
import atexit
import os
import shutil
import sys
import tempfile

REPO = os.environ.get('VERIF_REPO') or '/repo'
VERIF = os.path.dirname(os.path.dirname(os.path.abspath(__file__)))
GUARD = 'CARBON_VERIF'

_scratch = None
_booted = False


def scratch():
  """A private scratch directory for this process.  All scratch directories of one run live under one
  root (VERIF_SCRATCH_ROOT, created by the first process of the run and inherited by forked/spawned workers),
  and that first process removes the root at exit - pool workers are terminated without running atexit."""
  global _scratch
  if _scratch is None:
    root = os.environ.get('VERIF_SCRATCH_ROOT')
    if not root or not os.path.isdir(root):
      base = '/dev/shm' if os.path.isdir('/dev/shm') and os.access('/dev/shm', os.W_OK) else None
      root = tempfile.mkdtemp(prefix='carbon-verif-run-', dir=base)
      os.environ['VERIF_SCRATCH_ROOT'] = root
      owner = os.getpid()

      def _cleanup(path=root, owner=owner):
        if os.getpid() == owner:
          shutil.rmtree(path, ignore_errors=True)
      atexit.register(_cleanup)
    _scratch = tempfile.mkdtemp(prefix='p%d-' % os.getpid(), dir=root)
  return _scratch


MIN_SCHEMAS = "[all]\npattern = .*\nretentions = 60:1440\n"


# A harness that runs the daemon's threads under its own scheduler installs a model of "hand this call to the reactor
# thread" here; without one the twisted functions behave as always.
REACTOR_MODEL = [None]
IN_CONTROLLED_RUN = [False]      # set by thrx while its threads run
MODEL_MISSING = [None]           # what was reached without a model (thrx turns it into a harness error, never into a hang)


def _install_reactor_seams():
  import twisted.internet.threads as tthreads
  from twisted.internet import reactor
  if getattr(tthreads, '_verif_orig_bcft', None) is not None:
    return
  tthreads._verif_orig_bcft = tthreads.blockingCallFromThread

  def blockingCallFromThread(reactor_, f, *a, **k):
    m = REACTOR_MODEL[0]
    if m is not None:
      return m.blocking_call(f, a, k)
    if IN_CONTROLLED_RUN[0]:
      MODEL_MISSING[0] = 'blockingCallFromThread'       # the real one would wait for a reactor that is not running
      return None
    # a single-threaded harness: this thread plays the reactor thread (the real function would wait for ever for a reactor
    # that is not running)
    return f(*a, **k)
  tthreads.blockingCallFromThread = blockingCallFromThread
  orig_cft = reactor.callFromThread

  def callFromThread(f, *a, **k):
    m = REACTOR_MODEL[0]
    if m is not None:
      return m.call_from_thread(f, a, k)
    if IN_CONTROLLED_RUN[0]:
      MODEL_MISSING[0] = 'reactor.callFromThread'       # the real one would queue the call for a reactor that never runs
      return None
    return f(*a, **k)            # single-threaded harness: this thread plays the reactor thread
  reactor.callFromThread = callFromThread
  # the process's main thread is "the reactor thread" of every single-threaded harness
  from twisted.python import threadable
  threadable.registerAsIOThread()


def boot(conf_files=None, standins=False):
  """Make carbon importable from the working tree and give it a sane configuration root.

  Must be called before the first ``import carbon.<anything that reads settings at import>``.
  Idempotent.  Returns the carbon ``settings`` object.
  """
  global _booted
  os.environ.setdefault(GUARD, '1')
  lib = os.path.join(REPO, 'lib')
  if lib not in sys.path:
    sys.path.insert(0, lib)
  sys.dont_write_bytecode = True
  if standins:
    if 'carbon.database' in sys.modules and not _booted:
      raise RuntimeError('stand-in libraries requested after carbon.database was imported')
    sd = os.path.join(VERIF, 'mc', 'doubles', 'standins')
    if sd not in sys.path:
      sys.path.append(sd)       # appended: a real whisper/ceres, if ever installed, wins
  # carbon.service tolerates ImportError for this optional listener; the py2-only txamqp in this
  # image raises SyntaxError instead.  AMQP is anchored by no property.
  sys.modules.setdefault('carbon.amqp_listener', None)
  _install_reactor_seams()       # before any carbon module binds these names at import
  from carbon.conf import settings
  if not _booted:
    root = scratch()
    conf = os.path.join(root, 'conf')
    os.makedirs(conf, exist_ok=True)
    os.makedirs(os.path.join(root, 'data'), exist_ok=True)
    files = {'storage-schemas.conf': MIN_SCHEMAS}
    files.update(conf_files or {})
    for name, text in files.items():
      with open(os.path.join(conf, name), 'w') as f:
        f.write(text)
    settings['CONF_DIR'] = conf
    settings['LOCAL_DATA_DIR'] = os.path.join(root, 'data')
    settings['STORAGE_DIR'] = root
    settings['program'] = 'carbon-verif'
    settings['instance'] = 'a'
    settings['LOG_UPDATES'] = False
    settings['LOG_CREATES'] = False
    settings['LOG_CACHE_HITS'] = False
    settings['LOG_CACHE_QUEUE_SORTS'] = False
    settings['LOG_LISTENER_CONN_SUCCESS'] = False
    settings['LOG_AGGREGATOR_MISSES'] = False
    settings['ENABLE_TAGS'] = False
    settings['TCP_KEEPALIVE'] = False
    derive_cache_limits(settings)
    remember_default_handlers()
    _silence_twisted()
    _booted = True
  return settings


def derive_cache_limits(settings):
  """Mirror of carbon.conf.CarbonCacheOptions.postOptions for the derived cache limits.

  (postOptions itself needs a twistd option parser, a pid file and a real database plugin; the three
  assignments below are copied from lib/carbon/conf.py and are re-checked against that source text
  by ``assert_derivation_unchanged``.)
  """
  settings['CACHE_SIZE_LOW_WATERMARK'] = settings['MAX_CACHE_SIZE'] * 0.95
  if settings['USE_FLOW_CONTROL']:
    settings['CACHE_SIZE_HARD_MAX'] = settings['MAX_CACHE_SIZE'] * 1.05
  else:
    settings['CACHE_SIZE_HARD_MAX'] = settings['MAX_CACHE_SIZE']


def apply_daemon_cache_limits(settings, variant='base'):
  """Configure MAX_CACHE_SIZE / USE_FLOW_CONTROL (already set to the wanted values) and the limits derived from
  them exactly as the daemon's real start-up (CarbonCacheOptions.postOptions on a generated carbon.conf,
  mc/daemonconf.py) leaves them; a key the start-up does not define is removed, so carbon fails as it would."""
  from . import daemonconf
  return daemonconf.apply_cache_limits(settings, variant)


def wire_writer_processor(settings):
  """The cache daemon's own wiring: the real service.setupWriterProcessor() with the TCP services stubbed out (they need a
  real reactor).  Whatever handlers it registers (flow control, counters) are then in place as in the daemon."""
  from carbon import service
  from twisted.application.service import MultiService
  import carbon.writer          # noqa - so that WriterService exists
  root = MultiService()
  saved = service.TCPServer

  class NoTCP(object):
    def __init__(self, *a, **k):
      pass

    def setServiceParent(self, parent):
      pass
  service.TCPServer = NoTCP
  try:
    service.setupWriterProcessor(root, settings)
  finally:
    service.TCPServer = saved
  return root


class LogCapture(object):
  """Twisted log observer: counts error events, keeps messages (never writes anything)."""

  def __init__(self):
    self.errors = []
    self.messages = 0

  def __call__(self, event):
    self.messages += 1
    if event.get('isError'):
      f = event.get('failure')
      self.errors.append(repr(f.value) if f is not None else str(event.get('message')))

  def install(self):
    from twisted.python import log as tlog
    tlog.addObserver(self)
    return self

  def remove(self):
    from twisted.python import log as tlog
    try:
      tlog.removeObserver(self)
    except ValueError:
      pass


def reset_state():
  """Reset carbon's module-level singletons to their import-time condition."""
  from carbon import state, events, instrumentation
  from carbon.conf import settings
  # carbon itself assigns some settings as *attributes* (settings.MIN_TIMESTAMP_LAG = 0 at shutdown,
  # the derived cache limits in conf.py); instance attributes shadow the dict keys for attribute
  # readers and would leak from one execution into the next.
  vars(settings).clear()
  state.metricReceiversPaused = False
  state.cacheTooFull = False
  state.client_manager = None
  state.connectedMetricReceiverProtocols.clear()
  state.pipeline_processors = []
  state.pipeline_processors_generated = []
  state.listeningPorts[:] = []
  state.events = events
  state.instrumentation = instrumentation
  instrumentation.stats.clear()
  instrumentation.prior_stats.clear()
  # keep only the default handlers installed by carbon.events at import (recorded on first call)
  for name, n in _default_handlers().items():
    ev = getattr(events, name)
    del ev.handlers[n:]
  import carbon.cache
  carbon.cache._Cache = None


_defaults = None


def _default_handlers():
  global _defaults
  if _defaults is None:
    from carbon import events
    _defaults = {}
    for name in ('metricReceived', 'metricGenerated', 'cacheOverflow', 'cacheFull',
                 'cacheSpaceAvailable', 'pauseReceivingMetrics', 'resumeReceivingMetrics'):
      _defaults[name] = len(getattr(events, name).handlers)
  return _defaults


def remember_default_handlers():
  _default_handlers()


def _silence_twisted():
  """Until logging is started Twisted prints every logged failure to stderr; start it with an observer
  that drops everything (harnesses add their own capturing observers)."""
  from twisted.python import log as tlog
  if not getattr(tlog, '_verif_started', False):
    tlog.startLoggingWithObserver(lambda event: None, setStdout=False)
    tlog._verif_started = True


def private_conf():
  """Give this (worker) process its own CONF_DIR.  carbon.storage freezes the file paths at import, so
  this must run before carbon.storage / carbon.writer are imported in this process."""
  settings = boot()
  if 'carbon.storage' in sys.modules:
    import carbon.storage
    if os.path.dirname(carbon.storage.STORAGE_SCHEMAS_CONFIG) == settings['CONF_DIR'] and \
       settings['CONF_DIR'].endswith('-%d' % os.getpid()):
      return settings['CONF_DIR']
    raise RuntimeError('carbon.storage already imported with a shared CONF_DIR')
  conf = os.path.join(scratch(), 'conf-%d' % os.getpid())
  os.makedirs(conf, exist_ok=True)
  with open(os.path.join(conf, 'storage-schemas.conf'), 'w') as f:
    f.write(MIN_SCHEMAS)
  settings['CONF_DIR'] = conf
  return conf
