"""C07 - relay send queues deliver in order, exactly once, within their bounds."""
import json

from .. import core, env, evx, relayh

LEVEL = 'model_checking'
MANIFEST = {
  'engine': 'evx',
  'technique': 'breadth-first explicit-state search over event histories (datapoint, self-metric, connect ok/fail, '
               'connection lost, transport pause/resume, timer, stop, close completes) of the real relay on fake I/O, '
               'reference queues in lock-step, bytes written to each destination decoded independently',
  'text': 'The real CarbonClientManager / CarbonClientFactory / client protocols / RelayProcessor, wired by the real '
          'service.setupPipeline, run against a fake reactor whose connector is a subclass of Twisted\'s BaseConnector. '
          'All event histories to depth 5-6 (thorough 7) for a covering set (thorough: the full product) of '
          'MAX_QUEUE_SIZE 1..3 x MAX_DATAPOINTS_PER_MESSAGE 1,2,5 x flow control x dynamic router x pickle/line x 1-2 '
          'destinations. After every event: bytes newly written to a destination must decode to a prefix of its '
          'reference queue (order, exactly once, batch size), the implementation queue must equal the reference queue '
          '(drops only at the hard limit, re-routing on destinationDown, self-metrics at the head), fullQueueDrops must '
          'equal the reference drop count, the unrouted buffer must match, and a close requested after stop must find '
          'the queue transmitted.',
  'note': 'Routing by a generated relay-rules file so that metric -> destination is fixed (m -> d1, n -> d2, b -> both). '
          'DESTINATION_POOL_REPLICAS, TLS and protobuf are outside the quantifier. An exception escaping stopService() is '
          'recorded as an observation only. Events also include the instrumentation tick (real recordMetrics, self-metrics re-entering the send path, cumulative drop accounting) and a pooled configuration with two destinations on one host; an abandoned queue (destination disconnected for good with data queued and nothing counted) is a violation.',
}


def configs(ctx):
  out = []
  if ctx.thorough:
    for mq in (1, 2, 3):
      for batch in (1, 2, 5):
        for flow in (True, False):
          for dyn in (False, True):
            for proto in ('pickle', 'line'):
              for nd in (1, 2):
                out.append({'max_queue': mq, 'batch': batch, 'flow': flow, 'dynamic': dyn, 'protocol': proto, 'ndest': nd})
    for proto in ('pickle', 'line'):
      for batch in (1, 2, 3):
        out.append({'max_queue': 3, 'batch': batch, 'flow': True, 'dynamic': False, 'protocol': proto, 'ndest': 1, 'arm': True})
        out.append({'max_queue': 3, 'batch': batch, 'flow': True, 'dynamic': True, 'protocol': proto, 'ndest': 1, 'ratio_reset': True})
      for mq in (1, 2):
        out.append({'max_queue': mq, 'batch': 2, 'flow': mq == 2, 'dynamic': False, 'protocol': proto, 'ndest': mq, 'report': True,
                    'hp': False, 'stop': False, 'metrics': ('m',) if mq == 1 else ('m', 'n'), 'max_reports': 2 if mq == 1 else 1})
    return out
  # pairwise-covering selection
  rows = [
    (1, 1, True, False, 'pickle', 1), (2, 2, True, True, 'pickle', 2), (3, 5, False, False, 'line', 2),
    (1, 2, False, True, 'line', 1), (2, 5, True, False, 'line', 1), (3, 1, True, True, 'line', 2),
    (1, 5, True, True, 'pickle', 2), (2, 1, False, False, 'pickle', 2), (3, 2, False, True, 'pickle', 1),
    (2, 1, True, True, 'line', 1), (1, 1, False, True, 'pickle', 2), (3, 5, True, False, 'pickle', 1),
    (1, 2, True, False, 'line', 2), (2, 2, False, False, 'line', 1), (3, 1, False, False, 'line', 1),
    (2, 5, False, True, 'pickle', 2),
  ]
  for mq, batch, flow, dyn, proto, nd in rows:
    out.append({'max_queue': mq, 'batch': batch, 'flow': flow, 'dynamic': dyn, 'protocol': proto, 'ndest': nd})
  # back-pressure arriving in the middle of a write burst, and the connection-quality reset (USE_RATIO_RESET)
  out.append({'max_queue': 3, 'batch': 3, 'flow': True, 'dynamic': False, 'protocol': 'line', 'ndest': 1, 'arm': True, 'hp': False, 'stop': False})
  out.append({'max_queue': 2, 'batch': 2, 'flow': True, 'dynamic': False, 'protocol': 'pickle', 'ndest': 1, 'arm': True, 'hp': False, 'stop': False})
  out.append({'max_queue': 2, 'batch': 1, 'flow': True, 'dynamic': False, 'protocol': 'pickle', 'ndest': 1, 'ratio_reset': True, 'hp': False, 'stop': False})
  out.append({'max_queue': 3, 'batch': 2, 'flow': False, 'dynamic': False, 'protocol': 'line', 'ndest': 1, 'ratio_reset': True, 'hp': False})
  # two destinations on ONE host (different ports and instances) with DESTINATION_POOL_REPLICAS on: a pool is the set of
  # connections to one host:port, so each of these destinations is alone in its pool and must get exactly its own traffic
  out.append({'max_queue': 2, 'batch': 2, 'flow': True, 'dynamic': False, 'protocol': 'pickle', 'ndest': 2, 'pool': True, 'hp': False,
              'dests': [('10.0.0.1', 2004, 'a'), ('10.0.0.1', 2104, 'b')], 'metrics': ('m', 'n')})
  # the instrumentation tick (recordMetrics) runs between the other events: counters are reported and cleared, and the
  # self-metrics it generates re-enter the send path (where they can be discarded and must be counted like anything else)
  out.append({'max_queue': 1, 'batch': 1, 'flow': False, 'dynamic': False, 'protocol': 'pickle', 'ndest': 1, 'report': True, 'hp': False,
              'stop': False, 'metrics': ('m',)})
  out.append({'max_queue': 2, 'batch': 5, 'flow': True, 'dynamic': False, 'protocol': 'line', 'ndest': 2, 'report': True, 'hp': False,
              'stop': False, 'metrics': ('m', 'n'), 'max_reports': 1})     # (no series routed to both destinations and one tick only: the
  # order in which two destinations of ONE datapoint are served is unspecified and would decide the order of the next report)
  return out


def job(arg):
  p, depth = arg
  sysm = relayh.Relay(p)
  st = evx.bfs(sysm, depth)
  return st


def depth_for(ctx, p):
  if ctx.thorough:
    return 7 if p['ndest'] == 1 else 6
  return 6 if p['ndest'] == 1 else 5


def run(ctx):
  env.boot()
  cfgs = core.seeded_order(configs(ctx), ctx.seed)
  res = core.pmap(job, [(c, depth_for(ctx, c)) for c in cfgs], fresh=True)
  S = T = 0
  for c, st in zip(cfgs, res):
    S += st['states']
    T += st['transitions']
    for key, what, hist in st['violations']:
      ctx.violation(key, '%s | history %r | %r' % (what, hist, c), {'config': c, 'history': hist})
    if st['samples']:
      ctx.sample({'config': c, 'history': st['samples'][0]})
  ctx.add(states=S, transitions=T, traces_validated_against_impl=T, configurations=len(cfgs),
          depth={'one_destination': 7 if ctx.thorough else 6, 'two_destinations': 6 if ctx.thorough else 5})
  ctx.assumptions += ['bytes handed to a transport count as transmitted (TCP-level loss is not modelled)',
                      'ReconnectingClientFactory jitter set to 0 (the only random source)']


def replay(path):
  body = json.load(open(path))
  rep = body['replay']
  s = relayh.Relay(rep['config'])
  s.reset()
  v = None
  for ev in rep['history']:
    ev = tuple(ev)
    v = s.apply(ev)
    print('  %-18r queues=%r unrouted=%r paused=%r' % (ev, {d[2]: s.q[d] for d in s.dests}, s.unrouted, s.state.metricReceiversPaused))
    if v:
      break
  print('oracle:', v or 'holds')
  s.close()
  return 1 if v else 0
