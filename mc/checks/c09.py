"""C09 - back-pressure always lets go: paused receivers are resumed once buffers drain."""
import json
import os

from .. import core, env, evx, relayh, thrx
from ..cacheh import VTime

LEVEL = 'model_checking'
MANIFEST = {
  'engine': 'evx',
  'technique': 'relay side: BFS over event histories of the real relay on fake I/O, with a quiescence probe in every '
               'reachable state; cache side: stateless model checking of the storing thread against the draining thread '
               '(real wiring by service.setupWriterProcessor, iterative preemption bounding) checked at quiescence',
  'text': 'Relay: for every state reachable within depth 5-6 (thorough 6-7) over arrivals, connect ok/fail/lost, transport '
          'pause/resume, timers and receiver connect/disconnect, the environment is then made benign (paused transports '
          'resumed, pending connects completed, timers fired to exhaustion): receivers must not stay paused and every '
          'connected receiver must be producing; receivers must be in step with the pause flag after every event. '
          'Configurations: MAX_QUEUE_SIZE 1..4 x QUEUE_LOW_WATERMARK_PCT 0.5/0.8 x MAX_DATAPOINTS_PER_MESSAGE 1,2,5,10 x '
          '1-3 destinations x dynamic router on/off (covering set in quick). Cache: MAX_CACHE_SIZE 1..3, two real '
          'line receivers (one connecting mid-run), 3-4 stores against drains until empty, <=2 (3) preemptions: at '
          'quiescence not (paused and size below 95%), receivers producing iff not paused.',
  'note': 'USE_FLOW_CONTROL=True and CARBON_METRIC_INTERVAL=0 (DESIGN.md I7: the periodic self-metrics would mask a '
          'lost wake-up for up to a minute). Listening side (mc/listenh.py): connections made while paused, connection limit, port accept state.',
}


# ---- relay side ---------------------------------------------------------------------------------------------------
class RelayBP(relayh.Relay):
  def on_new_state(self):
    trace = list(self.applied)
    v = relayh.Relay.on_new_state(self)      # quiesce + delivery liveness
    if v:
      return v
    v = self.paused_check('all destinations reachable')
    if v:
      return v
    # the same state, but one destination becomes unreachable for good (dynamic router)
    if self.p.get('dynamic') and self.ndest >= 2:
      for i, d in enumerate(self.dests):
        self.reset()
        for ev in trace:
          if self.apply(ev):
            raise core.HarnessError('history no longer replays')
        v = self.quiesce(down=(d,))
        if v:
          return v
        v = self.paused_check('destination %r unreachable for good' % (d,))
        if v:
          return v
    return None

  def paused_check(self, env_desc):
    if self.state.metricReceiversPaused:
      qs = {d[2]: len(self.q[d]) for d in self.dests}
      routed = len(self.member)
      if routed and all(len(self.q[d]) < self.low_watermark for d in self.member):
        return ('lost-wakeup:relay', 'quiescent (%s, timers exhausted) with receivers still paused; queue lengths %r, usable '
                'destinations %r, low watermark %r, cacheTooFull=%r' % (env_desc, qs, sorted(d[2] for d in self.member),
                                                                       self.low_watermark, self.state.cacheTooFull))
    for p, t in self.receivers:
      if (t.producerState != 'producing') != bool(self.state.metricReceiversPaused):
        return ('receiver-out-of-step', 'at quiescence a receiver is %s while metricReceiversPaused=%r' % (
          t.producerState, self.state.metricReceiversPaused))
    return None


def relay_job(arg):
  p, depth = arg
  return evx.bfs(RelayBP(p), depth)


def relay_configs(ctx):
  out = []
  if ctx.thorough:
    for mq in (1, 2, 3, 4):
      for low in (0.5, 0.8):
        for batch in (1, 2, 5, 10):
          for nd in (1, 2, 3):
            for dyn in (False, True):
              out.append((mq, low, batch, nd, dyn))
  else:
    out = [(1, 0.8, 1, 1, False), (1, 0.8, 5, 1, False), (2, 0.5, 2, 2, True), (2, 0.8, 10, 1, True), (3, 0.5, 5, 2, False),
           (3, 0.8, 2, 1, True), (4, 0.5, 10, 1, False), (4, 0.8, 1, 2, False), (1, 0.5, 2, 2, False), (2, 0.8, 1, 1, False),
           (4, 0.5, 5, 1, True), (2, 0.5, 5, 3, True),
           ]
  cfgs = []
  # a destination that fills up, is declared down and stays away (few event kinds, one metric, deeper)
  cfgs.append({'max_queue': 1, 'low_pct': 0.8, 'batch': 1, 'ndest': 2, 'dynamic': True, 'flow': True, 'protocol': 'pickle',
               'receivers': False, 'stop': False, 'hp': False, 'metrics': ('b',), 'deep': 6})
  # the peer's socket buffer fills up INSIDE the write burst that empties a full queue (transport.write() calls
  # pauseProducing() synchronously): the low-watermark check of that very send must still wake the receivers
  for mq, batch, proto in ((1, 1, 'pickle'), (2, 5, 'pickle'), (2, 2, 'line'), (3, 5, 'line')):
    cfgs.append({'max_queue': mq, 'low_pct': 0.8, 'batch': batch, 'ndest': 1, 'dynamic': False, 'flow': True, 'protocol': proto,
                 'receivers': True, 'stop': False, 'hp': False, 'metrics': ('m',), 'arm': True})
  # a queue that is drained one datapoint at a time and rests BETWEEN the low watermark and the limit while the connection
  # is lost and made again (non-initial state: the queue-full signal has fired and has not been answered yet)
  cfgs.append({'max_queue': 2, 'low_pct': 0.5, 'batch': 1, 'ndest': 1, 'dynamic': False, 'flow': True, 'protocol': 'pickle',
               'receivers': False, 'stop': False, 'hp': False, 'metrics': ('m',), 'deep': 6})
  for mq, low, batch, nd, dyn in out:
    cfgs.append({'max_queue': mq, 'low_pct': low, 'batch': batch, 'ndest': nd, 'dynamic': dyn, 'flow': True,
                 'protocol': 'pickle', 'receivers': True, 'stop': False, 'hp': False,
                 'metrics': ('m',) if nd == 1 else ('m', 'b')})
  return cfgs


# ---- cache side -----------------------------------------------------------------------------------------------------
class CacheBP(thrx.Harness):
  def __init__(self, p):
    self.p = p

  def visible(self):
    lib = os.path.join(env.REPO, 'lib', 'carbon')
    return {os.path.join(lib, 'cache.py'): None,
            os.path.join(lib, 'events.py'): {'__call__'},
            os.path.join(lib, 'protocols.py'): {'pauseReceiving', 'resumeReceiving', 'connectionMade'}}

  @property
  def opcode_funcs(self):
    return tuple(self.p.get('opcode', ()))

  def setup(self, s):
    p = self.p
    settings = env.boot()
    env.reset_state()
    settings['CACHE_WRITE_STRATEGY'] = p.get('strategy', 'sorted')
    settings['MAX_CACHE_SIZE'] = p['max_cache']
    settings['USE_FLOW_CONTROL'] = True
    settings['MIN_TIMESTAMP_LAG'] = 0
    env.apply_daemon_cache_limits(settings)
    import carbon.cache
    from carbon import events, state
    from carbon.protocols import MetricLineReceiver
    from twisted.internet.testing import StringTransport
    carbon.cache.time = VTime(s)
    self.mod = carbon.cache
    # the real wiring of a cache daemon (service.setupWriterProcessor adds exactly these two handlers when
    # USE_FLOW_CONTROL is on; it also creates TCP services, which need a real reactor)
    self.wire(settings)
    events.metricReceived.addHandler(self._store)
    self.cache = carbon.cache.MetricCache()
    self.lock = thrx.replace_locks(self.cache, s)
    self.state = state
    self.settings = settings
    self.events = events
    self.rx = []
    self.StringTransport = StringTransport
    self.Receiver = MetricLineReceiver
    self.connect_rx()
    for m, ts in p.get('init', ()):
      self.cache.store(m, (ts, 0.5))
    self.sched = s
    self.exc = []
    s.spawn('reactor', self.reactor_body)
    s.spawn('writer', self.writer_body)
    s.state_fp = lambda: (self.cache.size, self.lock.owner, state.metricReceiversPaused, state.cacheTooFull,
                          tuple(t.producerState for _, t in self.rx))

  def wire(self, settings):
    """Call the real service.setupWriterProcessor with the TCP/looping services stubbed out."""
    from carbon import service
    from twisted.application.service import MultiService
    import carbon.writer          # noqa - so that WriterService exists
    import twisted.application.internet as tai
    root = MultiService()
    saved = service.TCPServer

    class NoTCP(object):
      def __init__(self, *a, **k):
        pass

      def setServiceParent(self, parent):
        pass
    service.TCPServer = NoTCP
    try:
      service.setupWriterProcessor(root, settings)
    finally:
      service.TCPServer = saved

  def _store(self, metric, datapoint):
    self.cache.store(metric, datapoint)

  def connect_rx(self):
    p = self.Receiver()
    t = self.StringTransport()
    p.makeConnection(t)
    self.rx.append((p, t))

  def teardown(self, s):
    import time
    self.mod.time = time

  def reactor_body(self):
    s = self.sched
    for i, op in enumerate(self.p['reactor']):
      s.point(('op', i))
      try:
        if op[0] == 'line':
          # a datapoint arrives on the first receiver that is still producing (a paused transport delivers nothing)
          for p, t in self.rx:
            if t.producerState == 'producing':
              p.dataReceived(('%s 1 %d\n' % (op[1], op[2])).encode())
              break
        elif op[0] == 'connect':
          self.connect_rx()
      except thrx.Abort:
        raise
      except Exception as e:   # noqa
        self.exc.append(repr(e))

  def writer_body(self):
    s = self.sched
    idle = 0
    for _ in range(self.p.get('drains', 8)):
      s.point(('drain',))
      try:
        m, dps = self.cache.drain_metric()
      except thrx.Abort:
        raise
      except Exception as e:   # noqa
        self.exc.append(repr(e))
        break
      if self.p.get('partial') and _ + 1 >= self.p['drains']:
        break
      if m is None:
        idle += 1
        if idle >= 2 and self.sched.threads[0].done:
          break
        s.sleep(1)

  def outcome(self, s):
    return (self.state.metricReceiversPaused, self.state.cacheTooFull, self.cache.size,
            tuple(t.producerState for _, t in self.rx), tuple(self.exc), s.deadlock)

  def obligations(self, s):
    return {'was_paused': any(e[0] == 'paused' for e in self.sched.log) or self._ever_paused}

  _ever_paused = False

  def verdict(self, s):
    if s.horizon_hit or s.deadlock:
      return None
    if self.exc:
      return ('exception', 'raised %s' % self.exc[0])
    # quiescence: the reactor thread is done; let the writer drain whatever is left (explorer thread) -
    # unless this job stops the writer early on purpose (the cache then rests somewhere between empty and full)
    if not self.p.get('partial'):
      for _ in range(10):
        if not self.cache:
          break
        self.cache.drain_metric()
    size = self.cache.size
    paused = self.state.metricReceiversPaused
    low = self.p['max_cache'] * 0.95
    preempted = any(c for c in s.choices[1:])
    tag = 'cross-thread-race' if preempted else 'sequential'
    if paused and size < low:
      return ('lost-wakeup:cache:flag-paused:' + tag, 'quiescent with receivers paused although the cache holds %d datapoints '
              '(95%% of MAX_CACHE_SIZE = %r); cacheTooFull=%r' % (size, low, self.state.cacheTooFull))
    for i, (p, t) in enumerate(self.rx):
      if t.producerState != 'producing' and not paused:
        return ('lost-wakeup:cache:receiver-left-paused:' + tag, 'at quiescence receiver %d is paused while metricReceiversPaused=False '
                'and the cache holds %d datapoints: nothing will resume it (cacheTooFull=%r)' % (i, size, self.state.cacheTooFull))
      if t.producerState == 'producing' and paused:
        return ('receiver-out-of-step:' + tag, 'at quiescence receiver %d is producing while metricReceiversPaused=True' % i)
    return None


def make_cache(p):
  return CacheBP(p)


def cache_jobs(ctx):
  out = []
  deep = ctx.pick(2, 3)
  for mc in (1, 2, 3):
    for strat in ('sorted', 'bucketmax') if not ctx.thorough else ('sorted', 'max', 'naive', 'timesorted', 'bucketmax'):
      reactor = [('line', 'a', 1), ('line', 'b', 1), ('connect',), ('line', 'c', 1)]
      if mc >= 2:
        reactor = [('line', 'a', 1), ('line', 'a', 2), ('connect',), ('line', 'b', 1), ('line', 'c', 1)]
      b = deep if (strat == 'sorted' and mc <= 2) else 1
      out.append(({'max_cache': mc, 'strategy': strat, 'reactor': reactor, 'drains': 8}, (b, 0)))
      if mc == 3 and strat == 'sorted':
        # the writer stops after 1 / 2 drains: the cache rests partially filled (below the watermark or not)
        fill = [('line', 'a', 1), ('line', 'b', 1), ('line', 'c', 1), ('line', 'd', 1)]
        for nd in (1, 2, 3):
          out.append(({'max_cache': mc, 'strategy': strat, 'reactor': fill, 'drains': nd, 'partial': True}, (1, 0)))
      if ctx.thorough and strat == 'sorted':
        out.append(({'max_cache': mc, 'strategy': strat, 'reactor': reactor[:3], 'drains': 6,
                     'opcode': ('_check_available_space', 'store', 'pop')}, (1, 0)))
  return out


def _phase1(arg):
  (params, bounds), big = arg
  if big:
    return thrx.plan((make_cache, params, bounds, 24, 3))
  return thrx.explore(make_cache, params, bounds, fanout=10 ** 9), []


def run(ctx):
  env.boot()
  # the listening side: connections made while receivers are paused, the connection limit, the port's accept state
  from .. import listenh
  listenh.run_in(ctx, ctx.pick(6, 8))
  cfgs = core.seeded_order(relay_configs(ctx), ctx.seed)

  def depth_for(c):
    if c.get('deep'):
      return c['deep'] + (1 if ctx.thorough else 0)
    base = 6 if c['ndest'] == 1 else 5
    return base + (1 if ctx.thorough and c['ndest'] < 3 else 0) - (1 if c['ndest'] == 3 else 0)
  res = core.pmap(relay_job, [(c, depth_for(c)) for c in cfgs], fresh=True)
  S = T = 0
  for c, st in zip(cfgs, res):
    S += st['states']
    T += st['transitions']
    for key, what, hist in st['violations']:
      ctx.violation(key, '%s | history %r | %r' % (what, hist, {k: c[k] for k in ('max_queue', 'low_pct', 'batch', 'ndest', 'dynamic')}),
                    {'side': 'relay', 'config': c, 'history': hist})
    if st['samples']:
      ctx.sample({'side': 'relay', 'config': {k: c[k] for k in ('max_queue', 'low_pct', 'batch', 'ndest', 'dynamic')}, 'history': st['samples'][0]})
  # cache side
  jobs = cache_jobs(ctx)
  phase1 = core.pmap(_phase1, [(j, j[1][0] >= 2) for j in jobs], chunksize=1)
  results = [st for st, _ in phase1]
  tasks = [(i, t) for i, (_, sub) in enumerate(phase1) for t in sub]
  thrx.explore_tasks(tasks, cap=300, on_result=lambda i, st: thrx.merge(results[i], st))
  execs = steps = fps = outcomes = 0
  for (params, bounds), st in zip(jobs, results):
    execs += st['executions']
    steps += st['steps']
    fp = st['fingerprints']
    fps += len(fp) if isinstance(fp, set) else fp
    outcomes += len(st['outcomes'])
    if st['horizon']:
      raise core.HarnessError('C09 cache side: horizon hit')
    for key, what, rep in st['violations']:
      ctx.violation(key, '%s | %r' % (what, params), {'side': 'cache', 'params': params, 'choices': rep['choices']})
  ctx.sample({'side': 'cache', 'params': jobs[0][0], 'bounds': jobs[0][1]})
  ctx.add(states=S + fps, transitions=T + steps, traces_validated_against_impl=T + execs, relay_states=S, relay_transitions=T,
          relay_configurations=len(cfgs), cache_executions=execs, cache_explorations=len(jobs), cache_distinct_outcomes=outcomes,
          bounds={'relay_depth': '5-6 (+1 thorough)', 'cache_preemptions': ctx.pick(2, 3)})
  ctx.assumptions += ['quiescence = benign environment: paused transports resumed, pending connects succeed, timers fired until none remain']


def replay(path):
  body = json.load(open(path))
  rep = body['replay']
  if 'listener' in rep:
    from .. import listenh
    return listenh.replay(rep)
  if rep['side'] == 'relay':
    c = rep['config']
    c['metrics'] = tuple(c['metrics'])
    s = RelayBP(c)
    s.reset()
    v = None
    for ev in rep['history']:
      ev = tuple(ev)
      v = s.apply(ev)
      print('  %-18r queues=%r paused=%r tooFull=%r' % (ev, {d[2]: s.q[d] for d in s.dests}, s.state.metricReceiversPaused, s.state.cacheTooFull))
      if v:
        break
    if not v:
      v = s.on_new_state()
      print('  at quiescence: queues=%r paused=%r' % ({d[2]: s.q[d] for d in s.dests}, s.state.metricReceiversPaused))
    print('oracle:', v or 'holds')
    s.close()
    return 1 if v else 0
  params = rep['params']
  params['reactor'] = [tuple(x) for x in params['reactor']]
  s, h = thrx.run_one(make_cache, params, rep['choices'])
  v = h.verdict(s)
  print('outcome:', h.outcome(s))
  print('oracle:', v or 'holds')
  return 1 if v else 0
