"""C08 - aggregates are the rule function over exactly the values of their interval."""
import itertools
import json
import os

from .. import core, env, evx
from ..ref import aggrules

LEVEL = 'model_checking'
MANIFEST = {
  'engine': 'evx',
  'technique': 'breadth-first explicit-state search over interleavings of datapoint arrivals (on-time, late, very old, '
               'duplicate) and flush ticks on a virtual clock through the real rules -> processor -> buffers -> emission '
               'path, reference model in lock-step; plus bounded-exhaustive enumeration of the rule pattern language',
  'text': 'Rules are parsed by the real RuleManager; AggregationProcessor.process and the real LoopingCall-driven '
          'MetricBuffer.compute_value run on a twisted task.Clock. All histories to depth 6 (thorough 8) over 2 inputs x '
          '4 timestamps (now, now-f, now-3f, now-(m+3)f) and ticks of 5/10 s, for every aggregation method, 2-rule sets, '
          'a pass-through rule, MAX_AGGREGATION_INTERVALS 1/2/5, WRITE_BACK_FREQUENCY None/5, FORWARD_ALL on/off, aligned '
          'and unaligned start. Every emission must be the rule function over a suffix of the values received for that '
          'interval that starts no later than the previous emission (all values while within the horizon) and must '
          'follow new data; buffers per series <= MAX+2 after a flush; idle series released (no buffer, no timer); '
          'forwarding exactly as FORWARD_ALL says. Pattern language: all names over {a,b,.} up to length 7 (9) against a '
          'regex-free reference matcher, with the name cache off / LRU 1,2 / TTL.',
  'note': 'Values are powers of two so that a sum identifies its operand set exactly. Future-dated datapoints and '
          'two rules writing one aggregate are outside the alphabet (DESIGN.md I6). Also: infinities and overflowing sums (value-aware state merging), sub-second timestamps, a series named like a live aggregate, reloads that change the feeding pattern, sum/count pairs with the name memo. Buffer-width sweep: one interval holding n values for every n up to 130 (thorough 260; 1100 for p99/p999), every method, three arrival orders.',
}

F = 10
INF = float('inf')
METHODS = ['sum', 'avg', 'min', 'max', 'count', 'p50', 'p75', 'p80', 'p90', 'p95', 'p99', 'p999']


def ref_func(method):
  from math import floor, ceil

  def pct(factor):
    def f(vs):
      vs = sorted(vs)
      rank = factor * (len(vs) - 1)
      lo, hi = int(floor(rank)), int(ceil(rank))
      if lo == hi:
        return vs[lo]
      return vs[lo] * (hi - rank) + vs[hi] * (rank - lo)
    return f
  return {'sum': sum, 'avg': lambda v: float(sum(v)) / len(v), 'min': min, 'max': max, 'count': len,
          'p50': pct(0.5), 'p75': pct(0.75), 'p80': pct(0.8), 'p90': pct(0.9), 'p95': pct(0.95), 'p99': pct(0.99),
          'p999': pct(0.999)}[method]


class AggSystem(evx.System):
  _tick = [1500000000]

  def __init__(self, p):
    self.p = p
    self.rulesets = [p['rules']] + ([p['alt_rules']] if p.get('alt_rules') else [])
    self.rules = p['rules']            # [(output, input, method)] currently in force
    self.m = p['m']
    self.inputs = p.get('inputs', ('x.a', 'x.b'))

  def reset(self):
    p = self.p
    settings = env.boot()
    env.reset_state()
    settings['MAX_AGGREGATION_INTERVALS'] = self.m
    settings['WRITE_BACK_FREQUENCY'] = p.get('wbf')
    settings['FORWARD_ALL'] = p.get('forward_all', True)
    settings['CACHE_METRIC_NAMES_MAX'], settings['CACHE_METRIC_NAMES_TTL'] = p.get('name_cache', (0, 0))
    settings['LOG_AGGREGATOR_MISSES'] = False
    from twisted.internet.task import Clock, LoopingCall
    import carbon.aggregator.buffers as buffers
    from carbon.aggregator.rules import RuleManager
    from carbon.aggregator.processor import AggregationProcessor
    from carbon import events
    self.buffers = buffers
    self.clock = Clock()
    self.clock.advance(p.get('start', 1000))
    clock = self.clock

    class VT(object):
      @staticmethod
      def time():
        return clock.seconds()

    self.flushed = []
    self.errors = []
    if getattr(self, '_obs', None) is None:
      from twisted.python import log as tlog
      self._obs = lambda ev: self.errors.append(str(ev.get('failure') or ev.get('message'))[:300]) if ev.get('isError') else None
      tlog.addObserver(self._obs)

    def LC(f, *a, **kw):
      owner = getattr(f, '__self__', None)

      def recorded(*aa, **kk):
        self.flushed.append(getattr(owner, 'metric_path', None))
        return f(*aa, **kk)
      lc = LoopingCall(recorded, *a, **kw)
      lc.clock = clock
      return lc
    self.saved = (buffers.time, buffers.LoopingCall)
    buffers.time = VT
    buffers.LoopingCall = LC
    buffers.BufferManager.clear()
    if RuleManager.read_task.running:
      RuleManager.read_task.stop()
    self.active = 0
    self.rules = self.rulesets[0]
    if getattr(self, 'parsed', None) is not None and len(self.rulesets) == 1:
      RuleManager.rules = list(self.parsed)
    else:
      self._parse_rules(RuleManager)
    self.RuleManager = RuleManager
    self.proc = AggregationProcessor()
    self.emitted = []
    self._rec = lambda metric, dp: self.emitted.append((metric, dp[0], dp[1]))
    events.metricGenerated.addHandler(self._rec)
    self.n = 0
    # reference
    self.received = {}     # (agg, I) -> [values]
    self.upto = {}         # (agg, I) -> number of values covered by the last emission
    self.horizon_ok = {}   # (agg, I) -> bool
    self.reload_mark = {}  # (agg, I) -> number of values received before the last rules reload
    self.idle_flushes = 0

  def _parse_rules(self, RuleManager, force=True):
    path = os.path.join(env.scratch(), 'agg-rules-%d.conf' % os.getpid())
    with open(path, 'w') as f:
      for out, inp, method in self.rules:
        f.write('%s (%d) = %s %s\n' % (out, F, method, inp))
    AggSystem._tick[0] += 10
    os.utime(path, (AggSystem._tick[0], AggSystem._tick[0]))
    RuleManager.rules_file = path
    if force:
      RuleManager.rules_last_read = 0.0
    RuleManager.read_rules()
    if len(RuleManager.rules) != len(self.rules):
      raise core.HarnessError('RuleManager parsed %d rules of %d' % (len(RuleManager.rules), len(self.rules)))
    self.parsed = list(RuleManager.rules)

  def close(self):
    from twisted.python import log as tlog
    try:
      tlog.removeObserver(self._obs)
    except ValueError:
      pass
    self.buffers.BufferManager.clear()
    self.buffers.time, self.buffers.LoopingCall = self.saved
    self.RuleManager.rules = []

  # ---- events -----------------------------------------------------------------------------------------
  def enabled(self):
    evs = []
    for metric in self.inputs:
      for ts_kind in self.p.get('kinds', ('now', 'prev', 'late3', 'old')):
        evs.append(('dp', metric, ts_kind))
      for vk in self.p.get('values', ()):
        evs.append(('dp', metric, self.p.get('kinds', ('now',))[0], vk))
    evs.append(('tick', 5))
    evs.append(('tick', 10))
    if len(self.rulesets) > 1:
      evs.append(('reload',))
    return evs

  def now_interval(self):
    now = int(self.clock.seconds())
    return now - now % F

  def apply(self, ev):
    self.n += 1
    if ev[0] == 'dp':
      _, metric, kind = ev[:3]
      now = self.clock.seconds()
      ts = {'now': now, 'prev': now - F, 'late3': now - 3 * F, 'old': now - (self.m + 3) * F,
            'fracprev': now - F + 0.5, 'fraclate': now - 2 * F + 9.75}[kind]
      value = 2 ** self.n
      if len(ev) > 3 and not isinstance(ev[3], str):
        value = ev[3]
      elif len(ev) > 3:
        # extreme but legal values (the line listener accepts them; only NaN is filtered before the pipeline)
        value = {'inf': float('inf'), '-inf': float('-inf'), 'big': 1.5e308, '-big': -1.5e308}[ev[3]]
      interval = int(ts) - int(ts) % F if isinstance(ts, int) else ts - (ts % F)
      aggs = set()
      for out, inp, method in self.rules:
        a = aggrules.aggregate_name(inp, out, metric)
        if a is not None:
          aggs.add(a)
          self.received.setdefault((a, interval), []).append(value)
          self.horizon_ok.setdefault((a, interval), interval >= self.now_interval() - self.m * F and
                                     self.horizon_ok.get((a, interval), True))
      try:
        out = list(self.proc.process(metric, (ts, value)))
      except Exception as e:   # noqa
        return ('exception', 'process(%r) raised %r' % (metric, e))
      want = [(metric, (ts, value))] if (self.p.get('forward_all', True) and metric not in aggs) else []
      if out != want:
        return ('forwarding', 'process(%r) yielded %r, expected %r (FORWARD_ALL=%r, aggregates fed: %r)' % (
          metric, out, want, self.p.get('forward_all', True), sorted(aggs)))
      return None
    if ev[0] == 'reload':
      # the rules file is rewritten (same patterns, another method) and the periodic read_rules() tick runs
      self.active = 1 - self.active
      self.rules = self.rulesets[self.active]
      try:
        self._parse_rules(self.RuleManager, force=False)
      except Exception as e:   # noqa
        return ('exception', 'rules reload raised %r' % (e,))
      # values received but not emitted before a reload may be dropped ("clearing aggregation buffers") or kept;
      # either way they are no longer owed, and what is emitted from now on is the NEW rule's function
      for key, vals in self.received.items():
        self.reload_mark[key] = len(vals)
        self.horizon_ok[key] = False
      return None
    # tick
    del self.emitted[:]
    del self.flushed[:]
    before = self.clock.seconds()
    try:
      self.clock.advance(ev[1])
    except Exception as e:   # noqa
      return ('exception', 'flush raised %r' % (e,))
    return self.check_emissions(before)

  def check_emissions(self, before):
    if self.errors:
      return ('flush-error', 'an error was logged during the flush: %s' % self.errors[0])
    cur = self.now_interval()
    seen = set()
    for agg, interval, value in self.emitted:
      key = (agg, interval)
      if key in seen:
        # two flushes within one tick are possible (WRITE_BACK_FREQUENCY): the second needs new data too
        return ('re-emitted-without-new-data', '%r interval %r emitted twice in one tick without new data' % (agg, interval))
      seen.add(key)
      vals = self.received.get(key)
      if not vals:
        return ('phantom', 'emitted %r for %r interval %r but nothing was received for it' % (value, agg, interval))
      L = self.upto.get(key, 0)
      if len(vals) <= L:
        return ('re-emitted-without-new-data', '%r interval %r re-emitted (%r) although no new datapoint arrived' % (agg, interval, value))
      method = [m for o, i, m in self.rules if self._rule_feeds(o, i, agg)][0]
      f = ref_func(method)
      mark = self.reload_mark.get(key, 0)     # values received before a rules reload may have been dropped with the buffers
      def same(a, b):
        # (equal up to the rounding of a different but algebraically equal evaluation order)
        return a == b or (a != a and b != b) or (
          isinstance(a, float) and isinstance(b, (int, float)) and abs(a) != INF and abs(b) != INF and abs(a - b) <= 1e-12 * max(abs(a), abs(b)))
      js = [j for j in range(0, max(L, mark) + 1) if j < len(vals) and same(f(vals[j:]), value)]
      if not js:
        return ('wrong-aggregate:' + method, '%r interval %r emitted %r; values received %r (first %d already emitted): no suffix '
                'starting at or before the last emission gives that %s' % (agg, interval, value, vals, L, method))
      if self.horizon_ok.get(key, True) and 0 not in js:
        return ('dropped-within-horizon:' + method, '%r interval %r emitted %r = %s(%r) but all of %r were received and the interval '
                'never left the horizon' % (agg, interval, value, method, vals[js[0]:], vals))
      self.upto[key] = len(vals)
    # horizon bookkeeping at this flush instant
    for key in list(self.received):
      if key[1] < cur - self.m * F:
        self.horizon_ok[key] = False
    # buffers per series after a flush
    BM = self.buffers.BufferManager
    for agg, buf in list(BM.buffers.items()):
      if agg in self.flushed and len(buf.interval_buffers) > self.m + 2:
        return ('too-many-buffers', '%r holds %d interval buffers after a flush (MAX_AGGREGATION_INTERVALS=%d)' % (
          agg, len(buf.interval_buffers), self.m))
    # forget reference entries far beyond anything the alphabet can still address; they must have been emitted
    for key in list(self.received):
      if key[1] < cur - (self.m + 6) * F:
        if max(self.upto.get(key, 0), self.reload_mark.get(key, 0)) < len(self.received[key]):
          return ('never-emitted', 'values %r received for %r interval %r were never covered by an emission' % (
            self.received[key][self.upto.get(key, 0):], key[0], key[1]))
        del self.received[key]
        self.upto.pop(key, None)
        self.horizon_ok.pop(key, None)
        self.reload_mark.pop(key, None)
    return None

  def _rule_feeds(self, out, inp, agg):
    return any(aggrules.aggregate_name(inp, out, m) == agg for m in self.inputs)

  # ---- canonical state ------------------------------------------------------------------------------------
  def canon(self):
    cur = self.now_interval()
    now = self.clock.seconds()
    BM = self.buffers.BufferManager
    bufs = []
    for agg, buf in sorted(BM.buffers.items()):
      def cls(b):
        # ordinary values are interchangeable (distinct powers of two); the extreme ones are not
        if not self.p.get('values'):
          return None
        return tuple(sorted(repr(v) for v in b.values if v in (float('inf'), float('-inf')) or abs(v) > 1e300))
      ib = tuple(sorted((i - cur, len(b.values), b.inactive_since is None,
                         None if b.inactive_since is None else b.inactive_since - cur, cls(b)) for i, b in buf.interval_buffers.items()))
      bufs.append((agg, buf.configured, ib))
    timers = tuple(sorted(round(dc.getTime() - now, 6) for dc in self.clock.getDelayedCalls()))
    ref = tuple(sorted((k[0], k[1] - cur, len(v), self.upto.get(k, 0), self.horizon_ok.get(k, True), self.reload_mark.get(k, 0))
                       for k, v in self.received.items()))
    return (round(now % F, 6), tuple(bufs), timers, ref, self.active)

  def on_new_state(self):
    """Quiescence probe (destructive): with no more input everything received gets emitted once, no
    interval is re-emitted, and idle series are released together with their timers."""
    for _ in range(self.m + 8):
      del self.emitted[:]
      del self.flushed[:]
      before = self.clock.seconds()
      try:
        self.clock.advance(F)
      except Exception as e:   # noqa
        return ('exception', 'flush raised %r' % (e,))
      v = self.check_emissions(before)
      if v:
        return v
    for key, vals in self.received.items():
      if max(self.upto.get(key, 0), self.reload_mark.get(key, 0)) < len(vals):
        return ('never-emitted', 'values %r received for %r interval %r were never covered by an emission' % (
          vals[self.upto.get(key, 0):], key[0], key[1]))
    BM = self.buffers.BufferManager
    if len(BM.buffers):
      return ('idle-not-released', 'after %d idle periods BufferManager still holds %r' % (self.m + 8, sorted(BM.buffers)))
    if self.clock.getDelayedCalls():
      return ('idle-not-released', 'after %d idle periods %d flush timers are still pending' % (self.m + 8, len(self.clock.getDelayedCalls())))
    return None


def stream_job(arg):
  p, depth = arg
  return evx.bfs(AggSystem(p), depth)


def stream_configs(ctx):
  cfgs = []
  methods = METHODS if ctx.thorough else ['sum', 'avg', 'min', 'count', 'p50', 'p99']
  for method in methods:
    cfgs.append({'rules': [('agg.<p>', '<p>.*', method)], 'm': 2, 'inputs': ('x.a',)})
  for m in (1, 2, 5):
    for wbf in (None, 5):
      for start in (1000, 1003):
        if not ctx.thorough and (m, wbf, start) not in ((1, None, 1000), (1, 5, 1003), (2, 5, 1000), (5, None, 1003), (2, None, 1003)):
          continue
        cfgs.append({'rules': [('agg.<p>', '<p>.*', 'sum')], 'm': m, 'wbf': wbf, 'start': start, 'inputs': ('x.a',)})
  two = {} if ctx.thorough else {'kinds': ('now', 'late3')}
  cfgs.append(dict({'rules': [('agg.one', 'x.a', 'sum'), ('agg.all', 'x.*', 'count')], 'm': 1, 'forward_all': True}, **two))
  cfgs.append(dict({'rules': [('agg.one', 'x.a', 'sum'), ('agg.all', 'x.*', 'sum')], 'm': 2, 'forward_all': False}, **two))
  cfgs.append(dict({'rules': [('x.a', 'x.a', 'sum'), ('agg.all', 'x.*', 'sum')], 'm': 1, 'forward_all': True}, **two))
  cfgs.append({'rules': [('x.a', 'x.a', 'sum')], 'm': 1, 'forward_all': False, 'wbf': 5})
  # a sum/count pair over the same inputs, with the per-rule name memo switched on
  cfgs.append(dict({'rules': [('agg.sum', 'x.*', 'sum'), ('agg.cnt', 'x.*', 'count')], 'm': 1, 'forward_all': True, 'name_cache': (100, 0)}, **two))
  # infinities and values whose sum overflows (what python's sum() makes of them - inf, -inf or nan - is the aggregate)
  for method in ('avg', 'sum') if not ctx.thorough else ('avg', 'sum', 'min', 'max', 'p50'):
    cfgs.append({'rules': [('agg.<p>', '<p>.*', method)], 'm': 1, 'inputs': ('x.a',), 'kinds': ('now',), 'values': ('inf', '-inf', 'big')})
  # sub-second timestamps (the interval is the whole-second floor aligned to the frequency)
  cfgs.append({'rules': [('agg.<p>', '<p>.*', 'sum')], 'm': 2, 'start': 1003, 'inputs': ('x.a',), 'kinds': ('now', 'fracprev', 'fraclate')})
  # a received series that is merely NAMED like an aggregate some other series feeds (it matches no rule itself):
  # forwarding must not depend on which aggregate buffers happen to be alive
  cfgs.append({'rules': [('agg.one', 'x.a', 'sum')], 'm': 1, 'forward_all': True, 'inputs': ('x.a', 'agg.one'),
               'kinds': ('now', 'late3')})
  # the rules file is edited while series are live: same patterns, another method
  cfgs.append({'rules': [('agg.<p>', '<p>.*', 'sum')], 'alt_rules': [('agg.<p>', '<p>.*', 'avg')], 'm': 2, 'inputs': ('x.a',),
               'kinds': ('now', 'prev')})
  cfgs.append({'rules': [('agg.<p>', '<p>.*', 'max')], 'alt_rules': [('agg.<p>', '<p>.*', 'count')], 'm': 1, 'inputs': ('x.a',),
               'kinds': ('now', 'late3')})
  # ... and an edit that keeps the aggregate's name but changes which series feed it (what was learnt about a name
  # under the old rule must not survive the reload)
  cfgs.append({'rules': [('agg.<p>', '<p>.a', 'sum')], 'alt_rules': [('agg.<p>', '<p>.b', 'sum')], 'm': 1, 'inputs': ('x.a', 'x.b'),
               'kinds': ('now',)})
  return cfgs


# ---- (i) the pattern language ---------------------------------------------------------------------------------------
PATTERN_RULES = [
  ('o.lit', 'a.b'), ('o.<f>', 'a.<f>'), ('o.star', 'a.*'), ('o.pre', 'a*.b'), ('o.<f>.x', 'b<f>a.*'),
  ('o.<g>', '<<g>>.b'), ('o.<f>.<g>', '<f>.<<g>>'), ('o.mid', '*.a.*'), ('<f>.o', '<f>'), ('o.<g>', 'a.<<g>>'),
]


def pattern_shard(arg):
  rules, maxlen, cache_cfg = arg
  settings = env.boot()
  from carbon.aggregator import rules as R
  settings['CACHE_METRIC_NAMES_MAX'], settings['CACHE_METRIC_NAMES_TTL'] = cache_cfg
  names = [''.join(t) for k in range(1, maxlen + 1) for t in itertools.product('ab.', repeat=k)]
  n = 0
  hits = 0
  bad = []
  for out, inp in rules:
    rule = R.AggregationRule(inp, out, 'sum', 10)
    # twice: the second pass is served from the name cache (when on), in reverse order to force evictions
    for order in (names, names[::-1]):
      for name in order:
        n += 1
        got = rule.get_aggregate_metric(name)
        want = aggrules.aggregate_name(inp, out, name)
        if got != want:
          if len(bad) < 3:
            bad.append(('pattern', 'rule "%s = sum %s" (name cache %r): %r -> %r, documented language gives %r' % (
              out, inp, cache_cfg, name, got, want), {'rule': [out, inp], 'name': name, 'cache': list(cache_cfg)}))
        elif want is not None:
          hits += 1
  settings['CACHE_METRIC_NAMES_MAX'], settings['CACHE_METRIC_NAMES_TTL'] = 0, 0
  return n, hits, bad


def width_orders(n):
  # ascending, descending and a fixed scrambled order of n distinct values (1009 is prime and larger than any n used)
  asc = [float(i * i + 1) for i in range(n)]
  scr = [asc[(i * 389 + 7) % n] for i in range(n)] if n > 1 and 389 % n and _coprime(389, n) else asc[1::2] + asc[0::2]
  return [('ascending', asc), ('descending', asc[::-1]), ('scrambled', scr)]


def _coprime(a, b):
  while b:
    a, b = b, a % b
  return a == 1


def width_shard(arg):
  """One interval holding n values, for every n of `sizes`, in three arrival orders: the emitted aggregate is the documented
  function of exactly those n values (the rank arithmetic of the percentiles depends on n alone)."""
  method, sizes = arg
  sysm = AggSystem({'rules': [('agg.<p>', '<p>.*', method)], 'm': 2, 'inputs': ('x.a',)})
  n_runs = n_events = 0
  bad = []
  for n in sizes:
    for order, vals in width_orders(n):
      sysm.reset()
      hist = []
      v = None
      for x in vals:
        ev = ('dp', 'x.a', 'now', x)
        hist.append(ev)
        v = sysm.apply(ev)
        if v:
          break
      if not v:
        hist.append(('tick', 10))
        v = sysm.apply(('tick', 10))
        if not v and not any(a == 'agg.x' for a, _, _ in sysm.emitted):
          v = ('never-emitted:' + method, 'an interval holding %d values was not emitted at the flush that follows it' % n)
      n_runs += 1
      n_events += len(hist)
      if v and len(bad) < 2:
        bad.append((v[0], '%s of %d values arriving in %s order in one interval: %s' % (method, n, order, v[1][:600]),
                    {'engine': 'evx-agg', 'config': dict(sysm.p, rules=[list(r) for r in sysm.p['rules']]), 'history': [list(e) for e in hist]}))
  sysm.close()
  return n_runs, n_events, bad


def run(ctx):
  env.boot()
  top = ctx.pick(130, 260)
  wtasks = [(mth, list(range(lo, min(lo + 26, top + 1)))) for mth in METHODS for lo in range(1, top + 1, 26)]
  if ctx.thorough:
    wtasks += [(mth, list(range(lo, lo + 25))) for mth in ('p99', 'p999') for lo in range(top + 1, 1101, 25)]
  WR = WE = 0
  for n_runs, n_events, bad in core.pmap(width_shard, wtasks, chunksize=1):
    WR += n_runs
    WE += n_events
    for key, what, rep in bad:
      ctx.violation(key, what, rep)
  ctx.add(buffer_width_runs=WR, buffer_width_events=WE, buffer_width_max=1100 if ctx.thorough else top)
  depth = ctx.pick(6, 8)
  cfgs = core.seeded_order(stream_configs(ctx), ctx.seed)
  res = core.pmap(stream_job, [(c, depth if len(c['rules']) == 1 else 6) for c in cfgs], chunksize=1)
  S = T = 0
  exhausted = 0
  for c, st in zip(cfgs, res):
    S += st['states']
    T += st['transitions']
    exhausted += 1 if st['exhausted'] else 0
    for key, what, hist in st['violations']:
      ctx.violation(key, '%s | history %r | rules %r m=%r wbf=%r start=%r forward_all=%r' % (
        what, hist, c['rules'], c['m'], c.get('wbf'), c.get('start', 1000), c.get('forward_all', True)),
        {'engine': 'evx-agg', 'config': c, 'history': hist})
    if st['samples']:
      ctx.sample({'rules': c['rules'], 'm': c['m'], 'history': st['samples'][0]})
  maxlen = ctx.pick(7, 9)
  ptasks = [([r], maxlen, cc) for r in PATTERN_RULES for cc in ((0, 0), (1, 0), (2, 0), (1000, 60))]
  pres = core.pmap(pattern_shard, ptasks, chunksize=1)
  pn = ph = 0
  for n, hits, bad in pres:
    pn += n
    ph += hits
    for key, what, rep in bad:
      ctx.violation(key, what, rep)
  if not ph:
    raise core.HarnessError('C08: no name matched any rule pattern')
  ctx.add(states=S, transitions=T, traces_validated_against_impl=T, configurations=len(cfgs), depth=depth,
          frontier_exhausted_in=exhausted, pattern_evaluations=pn, pattern_matches=ph, pattern_name_length=maxlen)
  ctx.assumptions += ['buffers.py never branches on datapoint values, so states are merged on value counts',
                      'frequency 10 s for every rule']


def replay(path):
  body = json.load(open(path))
  rep = body['replay']
  if 'rule' in rep:
    n, hits, bad = pattern_shard(([tuple(rep['rule'])], len(rep['name']), tuple(rep['cache'])))
    for key, what, _ in bad:
      print('oracle: [%s] %s' % (key, what))
    return 1 if bad else 0
  c = rep['config']
  c['rules'] = [tuple(r) for r in c['rules']]
  s = AggSystem(c)
  s.reset()
  v = None
  for ev in rep['history']:
    ev = tuple(ev)
    v = s.apply(ev)
    print('  %-28r now=%r emitted=%r' % (ev, s.clock.seconds(), s.emitted if ev[0] == 'tick' else ''))
    if v:
      break
  if not v:
    v = s.on_new_state()
  print('oracle:', v or 'holds')
  s.close()
  return 1 if v else 0
