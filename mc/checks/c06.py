"""C06 - consistent hashing is stable, compatible and independent of membership history.

Explicit-state search over membership histories (add/remove through the real router) x ring
positions, against the independent reference ring in mc/ref/ring.py.
"""
import json

from .. import core, env, ringkeys
from ..ref import ring as refring

LEVEL = 'model_checking'
MANIFEST = {
  'engine': 'evx',
  'technique': 'breadth-first search over add/remove membership histories of the real router (ring states '
               'de-duplicated on the entry list) x exhaustive ring positions, reference ring in lock-step',
  'text': 'All histories of add/remove operations to depth 5 (thorough 6) over a 5-node universe chosen to contain '
          'colliding replica hashes, for carbon_ch and fnv1a_ch. For every transition the preference order of '
          'every checked ring position (quick: the boundary positions of every ring entry; thorough: all 65536) '
          'must change only by inserting/deleting the node; for add-only histories ring entries and routing must '
          'equal the independent reference implementation; after any history routing must equal a fresh ring of '
          'the live nodes in configured order.',
  'note': 'Trusted: mc/ref/ring.py (anchored to the literal expectations of the repo\'s test_hashing.py by the '
          'self-test). History independence fails on collision-bumped replicas (known finding F7). carbonHash is compared with the published hash of the UTF-8 bytes on non-ASCII key families.',
}

HASHES = ('carbon_ch', 'fnv1a_ch')


class S(dict):
  __getattr__ = dict.__getitem__


def find_universe(hash_type, size=5):
  """Search a node universe with colliding replica positions (deterministic)."""
  if hash_type == 'fnv1a_ch':
    # replica keys are "<i>-<instance>": two servers sharing an instance name collide on every replica
    # (three servers share 'a': chains of three colliding entries p, p+1, p+2 owned by three nodes)
    return [('10.0.0.1', 2004, 'a'), ('10.0.0.2', 2004, 'a'), ('10.0.0.3', 2004, 'a'),
            ('10.0.0.4', 2004, None), ('10.0.0.2', 2104, 'b')][:size]
  cands = [('10.0.0.%d' % (k // 3 + 1), 2004 + 100 * (k % 3), 'abc'[k % 3]) for k in range(15)]
  pos = {}
  for c in cands:
    node = (c[0], c[2])
    pos[c] = set(refring.position(refring.replica_key(node, i, hash_type), hash_type) for i in range(100))
  # greedy: start with the pair sharing most positions, add the node colliding with most chosen ones
  best = None
  for i, a in enumerate(cands):
    for b in cands[i + 1:]:
      n = len(pos[a] & pos[b])
      if best is None or n > best[0]:
        best = (n, a, b)
  chosen = [best[1], best[2]]
  while len(chosen) < size:
    rest = [c for c in cands if c not in chosen]
    nxt = max(rest, key=lambda c: (sum(len(pos[c] & pos[d]) for d in chosen), -cands.index(c)))
    chosen.append(nxt)
  chosen = sorted(chosen, key=cands.index)
  # one destination written as host:port, i.e. without an instance label (its replica keys contain None)
  chosen[min(3, len(chosen) - 1)] = ('10.0.0.9', 2004, None)
  return chosen


def collisions(universe, hash_type):
  seen = {}
  n = 0
  for d in universe:
    node = (d[0], d[2])
    for i in range(100):
      p = refring.position(refring.replica_key(node, i, hash_type), hash_type)
      if p in seen and seen[p] != node:
        n += 1
      seen.setdefault(p, node)
  return n


def make_router(hash_type, rf):
  env.boot()
  from carbon.routers import ConsistentHashingRouter
  from carbon.conf import settings as real
  s = S(real)
  s['REPLICATION_FACTOR'] = rf
  s['DIVERSE_REPLICAS'] = False
  s['ROUTER_HASH_TYPE'] = hash_type
  return ConsistentHashingRouter(s)


class RoutingError(Exception):
  pass


def materialize(hash_type, universe, hist):
  r = make_router(hash_type, len(universe))
  for op, k in hist:
    d = universe[k]
    try:
      (r.addDestination if op == 'add' else r.removeDestination)(d)
    except Exception as e:   # noqa
      raise RoutingError('%sDestination(%r) raised %r after %r' % (op, d, e, hist))
  return r


def entries(router):
  return tuple(router.ring.ring)




def table_for(router, positions, keys):
  out = []
  for p in positions:
    try:
      out.append(tuple(router.getDestinations(keys[p])))
    except Exception as e:   # noqa
      raise RoutingError('getDestinations(%r) [ring position %d] raised %r' % (keys[p], p, e))
  return out


def pick_positions(ring_entries, full):
  if full:
    return list(range(65536))
  pts = {0, 1, 2, 65533, 65534, 65535}
  for p, _ in ring_entries:
    for q in (p - 1, p, p + 1, p + 2):
      if 0 <= q < 65536:
        pts.add(q)
  return sorted(pts)


def live_nodes(hist, universe):
  live = []
  for op, k in hist:
    if op == 'add':
      live.append(k)
    else:
      live.remove(k)
  return live


def classify_history_diff(impl_entries, fresh_entries, universe, hash_type):
  """Why does the ring after a history differ from the fresh ring?  'collision-bump' iff every
  differing entry is a replica whose base position is shared with (or bumped by) another replica of the
  node universe."""
  base = {}
  for d in universe:
    node = (d[0], d[2])
    for i in range(100):
      b = refring.position(refring.replica_key(node, i, hash_type), hash_type)
      base.setdefault(b, set()).add(node)
  crowded = set()
  for b, nodes in base.items():
    if len(nodes) > 1:
      for k in range(0, len(universe) + 2):
        crowded.add(b + k)
  # chains: a base adjacent to a crowded position can be pushed as well
  diff = set(impl_entries) ^ set(fresh_entries)
  for p, node in diff:
    if p not in crowded:
      return 'other'
  return 'collision-bump'


def expand(arg):
  try:
    return _expand(arg)
  except RoutingError as e:
    return {'bad': [('routing:exception', '%s after history %r' % (e, arg[2]), {'hist': arg[2]})], 'succ': [], 'checked': 0, 'npos': 0}


def _expand(arg):
  """One state: check compatibility/history-independence in the state, then every outgoing transition."""
  hash_type, universe, hist, full = arg
  universe = [tuple(d) for d in universe]
  keys = ringkeys.table(hash_type)
  bad = []
  router = materialize(hash_type, universe, hist)
  ent = entries(router)
  live = live_nodes(hist, universe)
  n_checked = 0
  # implementation hash == published hash on every key used
  from carbon.hashing import carbonHash
  positions = pick_positions(ent, full)
  for p in positions[:: max(1, len(positions) // 512)]:
    if carbonHash(keys[p], hash_type) != p:
      bad.append(('compat:hash', 'carbonHash(%r, %s)=%r, published algorithm gives %r' % (
        keys[p], hash_type, carbonHash(keys[p], hash_type), p), {'hist': hist}))
      break
  t0 = table_for(router, positions, keys)
  nn = len(live)
  node2dest = {(d[0], d[2]): d for d in universe}
  # routing must be the ring walk over the implementation's own entries (checks get_nodes/getDestinations)
  for p, got in zip(positions, t0):
    want = tuple(node2dest[n] for n in refring.preference(list(ent), p, nn))
    n_checked += 1
    if got != want:
      bad.append(('routing:walk', 'position %d routed to %r, ring walk gives %r' % (p, got, want),
                  {'hist': hist, 'position': p}))
      break
  # (b) compatibility for add-only histories
  if all(op == 'add' for op, _ in hist):
    ref_ent = tuple(refring.build([(universe[k][0], universe[k][2]) for _, k in hist], hash_type))
    if ref_ent != ent:
      d = sorted(set(ref_ent) ^ set(ent))[:4]
      bad.append(('compat:entries', 'ring entries differ from the published algorithm, e.g. %r' % (d,), {'hist': hist}))
  # (c) history independence: fresh relay with the live destinations in configured (universe) order
  fresh_order = sorted(live)
  fresh_ent = tuple(refring.build([(universe[k][0], universe[k][2]) for k in fresh_order], hash_type))
  if fresh_ent != ent:
    why = classify_history_diff(ent, fresh_ent, universe, hash_type)
    moved = 0
    for p, got in zip(positions, t0):
      want = tuple(node2dest[n] for n in refring.preference(list(fresh_ent), p, nn))
      if got != want:
        moved += 1
    if moved:
      bad.append(('history:' + why, 'after history %r routing differs from a fresh relay with destinations %r on %d of '
                  '%d checked positions (%d ring entries differ)' % (hist, fresh_order, moved, len(positions),
                                                                    len(set(ent) ^ set(fresh_ent)) // 2),
                  {'hist': hist}))
  # (a) minimal disruption on every outgoing transition
  succ = []
  for k in range(len(universe)):
    op = ('remove', k) if k in live else ('add', k)
    r2 = materialize(hash_type, universe, list(hist) + [op])
    ent2 = entries(r2)
    succ.append((op, ent2))
    pos2 = sorted(set(positions) | set(pick_positions(ent2, full))) if not full else positions
    told = t0 if pos2 is positions else table_for(router, pos2, keys)
    tnew = table_for(r2, pos2, keys)
    d = universe[k]
    for p, a, b in zip(pos2, told, tnew):
      n_checked += 1
      if op[0] == 'add':
        ok = tuple(x for x in b if x != d) == a and b.count(d) == 1
      else:
        ok = tuple(x for x in a if x != d) == b
      if not ok:
        bad.append(('disruption', '%s %r changed the preference order of position %d from %r to %r' % (
          op[0], d, p, a, b), {'hist': list(hist) + [op], 'position': p}))
        break
  # (d) a long-lived router: lookups, then two membership operations with no lookup in between, then lookups
  # again - it must route exactly like a router freshly built from the same history (stale lookup caches)
  if not full:
    probe = positions[::5]
    for k1 in range(len(universe)):
      for k2 in range(len(universe)):
        if k1 == k2:
          continue
        live1 = set(live)
        op1 = ('remove', k1) if k1 in live1 else ('add', k1)
        live1 ^= {k1}
        op2 = ('remove', k2) if k2 in live1 else ('add', k2)
        same = materialize(hash_type, universe, hist)
        table_for(same, probe, keys)
        for op, k in (op1, op2):
          (same.addDestination if op == 'add' else same.removeDestination)(universe[k])
        fresh = materialize(hash_type, universe, list(hist) + [op1, op2])
        ta, tb = table_for(same, probe, keys), table_for(fresh, probe, keys)
        n_checked += len(probe)
        if ta != tb:
          p = [pp for pp, x, y in zip(probe, ta, tb) if x != y][0]
          bad.append(('long-lived-router', 'after lookups, %r, %r on one router object position %d routes to %r; a router built '
                      'from the same history routes to %r' % (op1, op2, p, ta[probe.index(p)], tb[probe.index(p)]),
                      {'hist': list(hist) + [op1, op2]}))
          break
      if bad and bad[-1][0] == 'long-lived-router':
        break
  return {'bad': bad[:4], 'succ': [(op, hash(e)) for op, e in succ], 'checked': n_checked, 'npos': len(positions)}


def wiring_case(arg):
  """The relay daemon's own wiring: DESTINATIONS as written in carbon.conf -> service.setupPipeline(['relay']) ->
  CarbonClientManager.startClient -> router.  The ring must be the published one for the list IN THE ORDER IT IS WRITTEN
  (collision bumps depend on it), whatever that order is."""
  hash_type, order = arg
  from .. import relayh
  if order == 'hostnames':
    # host names as an operator writes them (capitals, an IPv6 literal): the spelling is part of the hashed replica key
    dests = [('Cache-A.Example.COM', 2004, 'a'), ('cache-b.example.com', 2004, 'b'), ('2001:DB8::5', 2004, 'c'), ('CACHE-D', 2104, None)]
  else:
    universe = find_universe(hash_type, 5)
    dests = [universe[i] for i in order]
  sysm = relayh.Relay({'max_queue': 10, 'batch': 5, 'flow': True, 'dynamic': False, 'protocol': 'pickle', 'ndest': len(dests),
                       'dests': dests, 'relay_method': 'consistent-hashing', 'hash_type': hash_type})
  bad = []
  try:
    try:
      sysm.reset()
    except Exception as e:   # noqa
      bad.append(('compat:wiring', 'relay configured with DESTINATIONS = %s cannot build its ring: %r' % (
        ', '.join(relayh.dest_str(d) for d in dests), e), {'wiring_order': order if isinstance(order, str) else list(order), 'hash': hash_type}))
      return len(dests), bad
    from carbon import state
    router = state.client_manager.router
    got = [tuple(e) for e in router.ring.ring]
    want = refring.build([(d[0], d[2]) for d in dests], hash_type)
    if got != want:
      diff = sorted(set(got) ^ set(want))[:4]
      bad.append(('compat:wiring', 'relay configured with DESTINATIONS = %s builds a ring that differs from the published %s ring for that '
                  'list in %d entries (e.g. %r)' % (', '.join(relayh.dest_str(d) for d in dests), hash_type,
                                                  len(set(got) ^ set(want)) // 2, diff), {'wiring_order': order if isinstance(order, str) else list(order), 'hash': hash_type}))
  finally:
    sysm.close()
  return len(dests), bad


def run(ctx):
  env.boot()
  orders = [(0, 1, 2, 3, 4), (4, 3, 2, 1, 0), (2, 0, 4, 1, 3), (1, 0), (3, 1, 0), 'hostnames']
  wtasks = [(h, o) for h in HASHES for o in orders]
  for (h, o), (n, wbad) in zip(wtasks, core.pmap(wiring_case, wtasks, fresh=True)):
    for key, what, rep in wbad:
      ctx.violation(key, '%s | hash=%s' % (what, h), rep)
  ctx.add(wiring_orders=len(wtasks))
  depth = ctx.pick(5, 6)
  total_states = total_trans = checked = 0
  coll = {}
  # the published hashes are defined on the UTF-8 bytes of the key: names outside ASCII (2-, 3-, 4-byte characters,
  # combining marks, tagged series) must land on the same ring position as in carbon-c-relay / graphite-web
  from carbon.hashing import carbonHash
  stems = ['é', 'ü.ß', '日本', '😀', 'a\u0301', 'm;k=é', 'naïve.metric', '\x7f', '\u00ff\u0100', 'Ω.%d', 'x' * 300 + 'é']
  nonascii = 0
  for hash_type in HASHES:
    for stem in stems:
      for i in range(ctx.pick(50, 500)):
        key = (stem % i) if '%d' in stem else '%s.%d' % (stem, i)
        nonascii += 1
        try:
          got = carbonHash(key, hash_type)
        except Exception as e:   # noqa
          got = 'raised %r' % (e,)
        want = refring.position(key, hash_type)
        if got != want:
          ctx.violation('compat:hash:non-ascii', 'carbonHash(%r, %s)=%r, published algorithm (hash of the UTF-8 bytes) gives %r | hash=%s' % (
            key, hash_type, got, want, hash_type), {'key': key, 'hash': hash_type})
          break
  ctx.add(non_ascii_keys_hashed=nonascii)
  for hash_type in HASHES:
    ringkeys.table(hash_type)
    universe = find_universe(hash_type, ctx.pick(4, 5))
    coll[hash_type] = collisions(universe, hash_type)
    if coll[hash_type] == 0:
      raise core.HarnessError('C06: node universe for %s has no colliding replica' % hash_type)
    # BFS over histories, states de-duplicated on the ring entry list (+ live set)
    seen = {}
    frontier = [()]
    r0 = materialize(hash_type, universe, ())
    seen[(hash(entries(r0)), ())] = ()
    for d in range(depth + 1):
      if not frontier:
        break
      full = ctx.thorough
      res = core.pmap(expand, [(hash_type, universe, list(h), full) for h in frontier], chunksize=1)
      nxt = []
      for h, r in zip(frontier, res):
        total_states += 1
        checked += r['checked']
        for key, what, rep in r['bad']:
          rep = dict(rep, hash=hash_type, universe=universe)
          ctx.violation(key, '%s | hash=%s' % (what, hash_type), rep)
        if d == depth:
          continue
        for op, eh in r['succ']:
          total_trans += 1
          h2 = h + (op,)
          k = (eh, tuple(sorted(live_nodes(h2, universe))))
          if k not in seen:
            seen[k] = h2
            nxt.append(h2)
      frontier = nxt
    ctx.sample({'hash': hash_type, 'universe': universe, 'history': list(list(seen.values())[-1])})
  ctx.add(states=total_states, transitions=total_trans, traces_validated_against_impl=total_states + total_trans,
          position_checks=checked, colliding_replicas=coll, depth=depth,
          positions='all 65536' if ctx.thorough else 'p-1..p+2 of every ring entry + ends',
          rule='membership histories (add if absent / remove if present) to the stated depth, ring states '
               'de-duplicated on (entry list, live set)')
  ctx.assumptions += ['configured order of a fresh relay = order of the destinations in the node universe',
                      'mmh3 absent: carbon_ch and fnv1a_ch only']


def replay(path):
  body = json.load(open(path))
  rep = body['replay']
  if 'wiring_order' in rep:
    n, bad = wiring_case((rep['hash'], rep['wiring_order'] if isinstance(rep['wiring_order'], str) else tuple(rep['wiring_order'])))
    for key, what, _ in bad:
      print('oracle: [%s] %s' % (key, what))
    if not bad:
      print('oracle: holds')
    return 1 if bad else 0
  if 'key' in rep and 'universe' not in rep:
    env.boot()
    from carbon.hashing import carbonHash
    got, want = carbonHash(rep['key'], rep['hash']), refring.position(rep['key'], rep['hash'])
    print('carbonHash(%r, %s) = %r; published algorithm: %r' % (rep['key'], rep['hash'], got, want))
    print('oracle:', 'holds' if got == want else 'VIOLATED')
    return 0 if got == want else 1
  universe = [tuple(d) for d in rep['universe']]
  hist = [tuple(x) for x in rep['hist']]
  r = expand((rep['hash'], universe, hist[:-1] if body['key'] == 'disruption' else hist, False))
  print('history:', hist)
  for key, what, _ in r['bad']:
    print('oracle: [%s] %s' % (key, what))
  if not r['bad']:
    print('oracle: holds')
  return 1 if r['bad'] else 0
