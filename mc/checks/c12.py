"""C12 - admission rules: blacklist, whitelist, NaN and timestamp normalisation."""
import itertools
import json
import math
import os
import re

from .. import core, env, wire

LEVEL = 'exploration'
MANIFEST = {
  'engine': 'enumx',
  'technique': 'bounded-exhaustive enumeration of whitelist/blacklist files x names x values x timestamps x resolutions '
               'x the three listeners, against a reference evaluator written from the statement; plus a depth-4 '
               'search over list-file rewrite/delete/reload histories',
  'text': 'List files are all sequences of up to 2 (thorough 3) lines from a pool with anchored/unanchored patterns, '
          'comments, blank, padded and invalid lines, loaded by the real RegexList.read_list(); every name of the alphabet '
          '(pool incl. capturing groups, a back-reference and an inline flag) is sent through the line, UDP and pickle listeners and the delivery verdict, the delivered name/value/'
          'timestamp and the blacklistMatches/whitelistRejects counters are compared with the reference; timestamps '
          '(-1, fractional, boundaries) x MIN_TIMESTAMP_RESOLUTION 0/1/10/60 x values incl. inf/nan are enumerated '
          'for representative list files.',
  'note': 'Reference: re.search semantics, a comment is a raw line starting with "#", invalid patterns are ignored, '
          'an empty effective whitelist filters nothing. carbon.protocols.time is fixed. The daemon wiring (createBaseService) is run over 28 start-up scenarios: list files absent/present at start-up, later created, rewritten or removed, reload timers on a virtual clock.',
}

LINES = ['^a\\.', 'b$', '.*', 'x+', 'a.b', '# c', '', '  ', '(', ' ^a ', '(a|x)\\.b', '^(.)\\1', '(?i)^A\\.']
NAMES = ['a.b', 'ab', 'b', 'xa.b', 'c', 'a.bb', 'A.B', 'é.b', 'bb', 'aa.b', 'a.b;=x', 'c;k=v;a=b', 'b;k']   # (the last three look tagged: broken tag syntax, valid unsorted tags)
VALUES = [0.0, 1.5, math.inf, -math.inf, math.nan]
TIMESTAMPS = [-1, 0, 59, 60, 61, 61.7, 1e9 + 0.25]
RESOLUTIONS = [0, 1, 10, 60]
NOW = 1700000123.75
PROTOS = ('line', 'udp', 'pickle')


def effective(lines):
  """Reference: compiled patterns of a list file (None = file missing)."""
  if lines is None:
    return []
  out = []
  for raw in lines:
    pat = raw.strip()
    if raw.startswith('#') or not pat:
      continue
    try:
      out.append(re.compile(pat))
    except re.error:
      pass
  return out


def ref_verdict(white, black, name, value):
  """'black' / 'white' / 'nan' / None (admitted)"""
  if any(r.search(name) for r in black):
    return 'black'
  if white and not any(r.search(name) for r in white):
    return 'white'
  if value != value:
    return 'nan'
  return None


def ref_timestamp(ts, res):
  if int(ts) == -1:
    ts = NOW
  if res:
    ts = int(ts) // res * res
  return ts


class Lists(object):
  """Drives the real WhiteList / BlackList singletons from real files."""
  _tick = [1000000000]

  def __init__(self):
    env.boot()
    from carbon.regexlist import WhiteList, BlackList
    self.W, self.B = WhiteList, BlackList
    d = os.path.join(env.scratch(), 'lists-%d' % os.getpid())
    os.makedirs(d, exist_ok=True)
    self.wpath = os.path.join(d, 'whitelist.conf')
    self.bpath = os.path.join(d, 'blacklist.conf')
    for lst, p in ((self.W, self.wpath), (self.B, self.bpath)):
      if lst.read_task.running:
        lst.read_task.stop()
      lst.list_file = p

  def write(self, path, lines):
    if lines is None:
      if os.path.exists(path):
        os.unlink(path)
      return
    with open(path, 'w') as f:
      f.write(''.join(l + '\n' for l in lines))
    # strictly increasing, but by a fraction of a second: an implementation that compares whole seconds would
    # miss an edit made within the same second as the previous load
    Lists._tick[0] += 0.25
    os.utime(path, ns=(int(Lists._tick[0] * 1e9), int(Lists._tick[0] * 1e9)))

  def load(self, wlines, blines):
    self.write(self.wpath, wlines)
    self.write(self.bpath, blines)
    self.W.read_list()
    self.B.read_list()


def encode(proto, name, ts, value):
  if proto == 'pickle':
    return wire.pickle_frame([(name, ts, value)])
  return wire.line(name, ts, value)


def shard(arg):
  cases = arg
  L = Lists()
  import carbon.protocols
  from carbon import instrumentation
  from carbon.conf import settings

  class T(object):
    @staticmethod
    def time():
      return NOW
  saved_time = carbon.protocols.time
  carbon.protocols.time = T
  n = 0
  sigs = set()
  bad = []
  try:
    rigs = {p: wire.Rig(p) for p in PROTOS}     # Rig() resets carbon state: build them once
    # all three rigs record into their own lists; re-register the recorders (reset_state trimmed them)
    from carbon import events
    for p, r in rigs.items():
      events.metricReceived.addHandler(r._rec)
    for wl, bl, names, values, tss, ress in cases:
      L.load(wl, bl)
      white, black = effective(wl), effective(bl)
      for res in ress:
        settings['MIN_TIMESTAMP_RESOLUTION'] = res
        for name in names:
          for value in values:
            for ts in tss:
              want = ref_verdict(white, black, name, value)
              outs = {}
              for p in PROTOS:
                rig = rigs[p]
                for r in rigs.values():
                  del r.delivered[:]
                instrumentation.stats.clear()
                exc = rig.feed(encode(p, name, ts, value))
                n += 1
                got = list(rigs['line'].delivered)     # every recorder sees every delivery
                stats = (instrumentation.stats.get('blacklistMatches', 0), instrumentation.stats.get('whitelistRejects', 0))
                outs[p] = (got, stats, exc)
                rep = {'whitelist': wl, 'blacklist': bl, 'name': name, 'value': value, 'ts': ts, 'res': res, 'proto': p}
                where = '%s listener, whitelist=%r blacklist=%r resolution=%r: %r value=%r ts=%r' % (p, wl, bl, res, name, value, ts)
                if exc is not None:
                  if len(bad) < 4:
                    bad.append(('exception', '%s: handler raised %r' % (where, exc), rep))
                  continue
                if want is not None:
                  if got:
                    if len(bad) < 4:
                      bad.append(('not-filtered:' + want, '%s should be filtered (%s) but %r was delivered' % (where, want, got), rep))
                  elif want == 'black' and stats != (1, 0) or want == 'white' and stats != (0, 1) or want == 'nan' and stats != (0, 0):
                    if len(bad) < 4:
                      bad.append(('counters', '%s filtered (%s) but counters (blacklistMatches, whitelistRejects)=%r' % (where, want, stats), rep))
                  else:
                    sigs.add((tuple(wl or ()), tuple(bl or ()), name, want, p))
                  continue
                wts = ref_timestamp(ts, res)
                if len(got) != 1:
                  if len(bad) < 4:
                    bad.append(('wrongly-filtered', '%s should be admitted, delivered %r' % (where, got), rep))
                  continue
                gname, gts, gval = got[0]
                if gname != name or not wire.same_number(gval, value) or gts != wts or \
                   (res and not isinstance(gts, int)):
                  if len(bad) < 4:
                    bad.append(('altered', '%s admitted as (%r, %r, %r), expected (%r, %r, %r)' % (where, gname, gts, gval, name, wts, value), rep))
                  continue
                sigs.add((tuple(wl or ()), tuple(bl or ()), name, res, repr(ts), repr(value), p))
  finally:
    carbon.protocols.time = saved_time
    settings['MIN_TIMESTAMP_RESOLUTION'] = 0
    L.load(None, None)
  return n, len(sigs), bad


def list_files(k):
  out = [None]
  for n in range(0, k + 1):
    for seq in itertools.product(LINES, repeat=n):
      out.append(list(seq))
  return out


def cases(ctx):
  k = ctx.pick(2, 3)
  big = list_files(k)
  small = list_files(1)
  out = []
  for wl in big:
    for bl in small:
      out.append((wl, bl, NAMES, [1.5], [1000], [0]))
  for bl in big:
    for wl in small:
      if wl in big[:len(small)] and bl in big[:len(small)]:
        continue
      out.append((wl, bl, NAMES, [1.5], [1000], [0]))
  # value x timestamp x resolution product on representative list files
  for wl, bl in [(None, None), (['^a\\.'], None), (None, ['b$']), (['.*', '('], ['x+']), ([], ['# c', '']), (['# c'], ['a.b'])]:
    out.append((wl, bl, NAMES if ctx.thorough else NAMES[:5], VALUES, TIMESTAMPS, RESOLUTIONS))
  return out


# ---- reload path: rewrite / delete / read_list histories --------------------------------------------------------
def reload_search(depth):
  L = Lists()
  contents = {'A': ['^a\\.'], 'B': ['b$', '('], 'E': []}
  events_ = ['wA', 'wB', 'wE', 'del', 'read']
  n = 0
  bad = []
  for hist in itertools.product(events_, repeat=depth):
    L.write(L.bpath, None)
    L.B.regex_list = []
    L.B.rules_last_read = 0.0
    on_disk = None
    loaded = []
    for ev in hist:
      if ev == 'del':
        L.write(L.bpath, None)
        on_disk = None
      elif ev == 'read':
        L.B.read_list()
        loaded = effective(on_disk)
      else:
        on_disk = contents[ev[1]]
        L.write(L.bpath, on_disk)
      n += 1
      for name in ('a.b', 'b', 'c'):
        want = any(r.search(name) for r in loaded)
        got = name in L.B
        if got != want:
          bad.append(('reload', 'after %r the blacklist %s %r, the last loaded file says %s' % (
            list(hist), 'matches' if got else 'does not match', name, want), {'history': list(hist)}))
          return n, bad
  L.load(None, None)
  return n, bad


WIRING_NAMES = ('keep.a', 'keep.drop', 'other.a', 'other.drop')
WIRING_CONTENT = {'w1': '^keep\\.\n', 'w2': '^other\\.\n', 'b1': 'drop$\n', 'b2': 'a$\n'}


def wiring_expect(wl, bl, name):
  import re
  if bl is not None and any(re.search(l, name) for l in bl.split()):
    return False
  if wl is not None and wl.split() and not any(re.search(l, name) for l in wl.split()):
    return False
  return True


def wiring_scenarios():
  """(initial whitelist content or None, initial blacklist content or None, later file operations)."""
  out = []
  for w0 in (None, 'w1'):
    for b0 in (None, 'b1'):
      for ops in ([], [('w', 'w2')], [('b', 'b2')], [('w', None)], [('b', None)], [('w', 'w2'), ('b', 'b2')],
                  [('w', 'w1'), ('b', 'b1')]):
        out.append((w0, b0, ops))
  return out


def wiring_check(_, only=None):
  """The daemon's own wiring (service.createBaseService with USE_WHITELIST): the whitelist file must feed the
  whitelist and the blacklist file the blacklist - also when a file does not exist yet at start-up and appears
  later, is rewritten, or is removed (the 10 s reload timer runs on a virtual clock)."""
  settings = env.boot()
  from carbon import service
  from carbon.regexlist import WhiteList, BlackList
  from twisted.internet.task import Clock
  bad = []
  n = 0
  for si, (w0, b0, ops) in enumerate(wiring_scenarios()):
    if only is not None and si != only:
      continue
    env.reset_state()
    d = os.path.join(env.scratch(), 'wiring-%d-%d' % (os.getpid(), si))
    os.makedirs(d, exist_ok=True)
    paths = {'w': os.path.join(d, 'whitelist.conf'), 'b': os.path.join(d, 'blacklist.conf')}
    cur = {'w': w0, 'b': b0}
    mt = 1000.0
    for k in ('w', 'b'):
      if cur[k] is not None:
        open(paths[k], 'w').write(WIRING_CONTENT[cur[k]])
        os.utime(paths[k], (mt, mt))
    clocks = []
    for lst in (WhiteList, BlackList):
      if lst.read_task.running:
        lst.read_task.stop()
      lst.read_task.clock = Clock()
      clocks.append(lst.read_task.clock)
      lst.rules_last_read = 0.0
      lst.regex_list = []
      lst.list_file = None
    settings['USE_WHITELIST'] = True
    settings['whitelist'], settings['blacklist'] = paths['w'], paths['b']
    try:
      service.createBaseService(None, settings)
      rig = wire.Rig('line')
      from carbon import events
      events.metricReceived.addHandler(rig._rec)

      def check(stage):
        for name in WIRING_NAMES:
          want = wiring_expect(WIRING_CONTENT.get(cur['w']), WIRING_CONTENT.get(cur['b']), name)
          del rig.delivered[:]
          rig.feed(wire.line(name, 1000, 1.0))
          got = bool(rig.delivered)
          if got != want and len(bad) < 3:
            bad.append(('wiring', 'daemon started by createBaseService with whitelist file %s and blacklist file %s; %s: now the '
                        'whitelist file holds %r and the blacklist file %r, but %r %s' % (
                          'absent' if w0 is None else repr(WIRING_CONTENT[w0]), 'absent' if b0 is None else repr(WIRING_CONTENT[b0]),
                          stage, WIRING_CONTENT.get(cur['w']), WIRING_CONTENT.get(cur['b']), name,
                          'was delivered' if got else 'was filtered'), {'wiring': name, 'scenario': si}))
      check('right after start-up')
      n += len(WIRING_NAMES)
      for k, content in ops:
        mt += 7.5
        if content is None:
          if os.path.exists(paths[k]):
            os.unlink(paths[k])
        else:
          open(paths[k], 'w').write(WIRING_CONTENT[content])
          os.utime(paths[k], (mt, mt))
        cur[k] = content
      if ops:
        for c in clocks:
          c.advance(10.5)
        check('after %r and one reload period' % (ops,))
        n += len(WIRING_NAMES)
    except Exception as e:   # noqa
      bad.append(('wiring', 'scenario %r raised %r' % ((w0, b0, ops), e), {'wiring': 'exception', 'scenario': si}))
    finally:
      settings['USE_WHITELIST'] = False
      for lst in (WhiteList, BlackList):
        if lst.read_task.running:
          lst.read_task.stop()
        lst.regex_list = []
        lst.rules_last_read = 0.0
  return bad, n


def run(ctx):
  env.boot()
  wbad, wn = core.pmap(wiring_check, [0], fresh=True)[0]
  for key, what, rep in wbad:
    ctx.violation(key, what, rep)
  ctx.add(wiring_scenarios=len(wiring_scenarios()), wiring_evaluations=wn)
  cs = core.seeded_order(cases(ctx), ctx.seed)
  nsh = 64
  res = core.pmap(shard, [cs[i::nsh] for i in range(nsh)], chunksize=1)
  n = d = 0
  for cnt, sig, bad in res:
    n += cnt
    d += sig
    for key, what, rep in bad:
      ctx.violation(key, what, rep)
  rn, rbad = reload_search(ctx.pick(4, 5))
  for key, what, rep in rbad:
    ctx.violation(key, what, rep)
  ctx.add(evaluations=n + rn, distinct_nontrivial=d, exhaustive=True, list_file_pairs=len(cs), reload_histories_events=rn,
          rule='whitelist x blacklist files (all sequences of <=%d pool lines for one list x <=1 for the other, both ways) '
               'x 8 names x 3 listeners; 6 representative list pairs x names x 5 values x 7 timestamps x 4 resolutions x 3 '
               'listeners; distinct_nontrivial = distinct (lists, name, verdict or normalised timestamp, listener) cases '
               'that agreed with the reference' % ctx.pick(2, 3))
  ctx.sample({'whitelist': ['^a\\.', '('], 'blacklist': ['b$'], 'name': 'a.b', 'expected': 'filtered by blacklist'})
  ctx.sample({'whitelist': None, 'blacklist': None, 'name': 'é.b', 'ts': -1, 'res': 60, 'expected_ts': ref_timestamp(-1, 60)})


def replay(path):
  body = json.load(open(path))
  rep = body['replay']
  if 'wiring' in rep:
    bad, _ = wiring_check(0, only=rep.get('scenario'))
    print('oracle:', bad[0][1] if bad else 'holds')
    return 1 if bad else 0
  if 'history' in rep:
    n, bad = reload_search(len(rep['history']))
    print('oracle:', bad[0][1] if bad else 'holds')
    return 1 if bad else 0
  val = rep['value']
  if isinstance(val, str):
    val = float(val)
  c = (rep['whitelist'], rep['blacklist'], [rep['name']], [val], [rep['ts']], [rep['res']])
  n, d, bad = shard([c])
  for key, what, _ in bad:
    print('oracle: [%s] %s' % (key, what))
  if not bad:
    print('oracle: holds')
  return 1 if bad else 0
