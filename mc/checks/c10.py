"""C10 - the cache stays within its configured bound and every refusal is signalled.

thrx (stores || drains, bound checked at every scheduling point) + evx BFS over sequential histories.
"""
from .. import cacheh, cacheseq

LEVEL = 'model_checking'
MANIFEST = {
  'engine': 'thrx',
  'technique': 'stateless model checking of thread interleavings with an invariant evaluated at every '
               'scheduling point + BFS over sequential store/drain histories against a bounded-dict reference',
  'text': 'For MAX_CACHE_SIZE 1..4 (thorough 1..6), flow control on/off and all six strategies: the number of '
          'held datapoints is compared with the hard limit at every scheduling point of every explored '
          'interleaving (<=2 preemptions, thorough 3), every store must be refused exactly when the bounded '
          'reference refuses it (linearizability), a refusal must raise exactly one overflow signal and leave '
          'contents and metric count unchanged; sequential histories to depth 6 (thorough 8) by BFS.',
  'note': 'Hard limit read as ceil(1.05*MAX_CACHE_SIZE) under flow control (DESIGN.md I1). The derived limits '
          'are configured with the factors found in carbon/conf.py, the oracle uses the property\'s constants. The limits are obtained from the real CarbonCacheOptions.postOptions() on generated carbon.conf files incl. [cache:<instance>] overrides; one series of the sequential search is tagged and sent in a non-canonical spelling.',
}

STRATEGIES = ('sorted', 'max', 'naive', 'timesorted', 'bucketmax', 'random')
PROGRAMS = [
  ([('m', 1, -1.0)], [('store', 'n', 1, 1.0), ('store', 'o', 1, 2.0), ('store', 'm', 1, 3.0)]),
  ([('m', 1, -1.0), ('n', 1, -2.0)], [('store', 'm', 2, 1.0), ('store', 'n', 1, 2.0), ('store', 'o', 2, 3.0)]),
]
MENU = [('store', 'm', 1), ('store', 'm', 2), ('store', 'n', 1), ('store', 'o', 1)]


def jobs(ctx):
  out = []
  for strat in STRATEGIES:
    fb = 1 if strat == 'random' else 0
    for mc in ctx.pick((1, 2, 3), (1, 2, 3, 4, 5, 6)):
      for flow in (False, True):
        for pi, (init, prog) in enumerate(PROGRAMS):
          deep = ctx.pick(2 if (strat in ('sorted', 'bucketmax', 'max') and mc <= 2 and pi == 0) else 1,
                          3 if (mc <= 2 and pi == 0 and strat in ('sorted', 'bucketmax')) else 2)
          out.append(({'strategy': strat, 'max_cache': mc, 'flow': flow, 'init': init[:mc], 'reactor': prog,
                       'writer': 2, 'oracles': ('c02', 'c10'), 'see_query': False}, (deep, fb)))
    if ctx.thorough:
      for prog in cacheh.covering_programs(MENU, 4):
        for mc in (1, 2, 3):
          out.append(({'strategy': strat, 'max_cache': mc, 'flow': True, 'init': [('m', 1, -1.0)], 'reactor': prog,
                       'writer': 3, 'oracles': ('c02', 'c10'), 'see_query': False}, (1, fb)))
      out.append(({'strategy': strat, 'max_cache': 1, 'flow': True, 'init': [('m', 1, -1.0)], 'reactor': PROGRAMS[0][1],
                   'writer': 2, 'oracles': ('c02', 'c10'), 'see_query': False,
                   'opcode': ('store', 'pop', '_check_available_space')}, (1, fb)))
  return out


def writer_jobs(ctx):
  """The bound with the real writer in the loop (backend faults included): whatever the writer does with a batch it
  could not persist, the cache must stay within its hard limit at every scheduling point."""
  out = []
  for strat in ('sorted', 'max') if not ctx.thorough else STRATEGIES:
    fb = 2 if strat == 'random' else 1
    for mc, flow in ((2, False), (3, True)):
      out.append(({'strategy': strat, 'max_cache': mc, 'flow': flow, 'files': ('a',), 'init': [('a', 1, 1.0), ('a', 2, 1.5)],
                   'reactor': [('store', 'b', 1, 2.0), ('store', 'c', 1, 3.0), ('store', 'b', 2, 4.0)], 'passes': 2, 'faults': True,
                   'oracles': ('c10',)}, (1, fb)))
  # a pass of the writer that ends while the cache is still full: under a timestamp lag the time-sorted strategy hands
  # nothing out while every datapoint is younger than the lag (virtual clock 1000, lag 5, timestamps 998/999); what the
  # writer does between two passes must not make room that is not there
  for mc, flow in ((2, False), (2, True)):
    out.append(({'strategy': 'timesorted', 'lag': 5, 'max_cache': mc, 'flow': flow, 'files': ('a', 'b', 'c'),
                 'init': [('a', 999, 1.0), ('b', 999, 1.5)], 'reactor': [('store', 'c', 999, 3.0), ('store', 'a', 998, 2.0), ('store', 'c', 998, 4.0)],
                 'passes': 2, 'faults': False, 'oracles': ('c10',)}, (1, 0)))
  return out


def run(ctx):
  from .. import writerh
  writerh.run_jobs(ctx, writer_jobs(ctx), 'C10', required=('fault_injected',))
  cacheh.run_jobs(ctx, jobs(ctx), 'C10', required=('store_overlaps_drain', 'nonempty_drain', 'refused_store'))
  cacheseq.run(ctx, oracles=('c02', 'c10'), depth=ctx.pick(6, 8), strategies=STRATEGIES,
               max_cache=ctx.pick([1, 2, 3, 4], [1, 2, 3, 4, 5, 6]), flows=(False, True),
               # the third series is tagged and always sent in a NON-canonical spelling (it is cached under the canonical
               # one): an update of one of its cached timestamps must be recognised as such also while the cache is full
               metrics=('m', 'n', 'o;b=1;a=2'))
  ctx.add(bounds={'max_cache': ctx.pick([1, 2, 3, 4], [1, 2, 3, 4, 5, 6]), 'preemptions': ctx.pick(2, 3),
                  'sequential_depth': ctx.pick(6, 8)})
  ctx.assumptions += ['hard limit = ceil(MAX_CACHE_SIZE * 1.05) with flow control, MAX_CACHE_SIZE without']


def replay(path):
  import json
  body = json.load(open(path))
  if body['replay'].get('engine') == 'evx-cacheseq':
    return cacheseq.replay(body)
  if body['replay'].get('engine') == 'thrx-writer':
    from .. import writerh
    return writerh.replay_schedule(path)
  return cacheh.replay_schedule(path)
