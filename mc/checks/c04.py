"""C04 - an orderly shutdown writes out everything that was accepted."""
from .. import writerh

LEVEL = 'model_checking'
MANIFEST = {
  'engine': 'thrx',
  'technique': 'stateless model checking of the stop sequence placed at every scheduling point of the real writer '
               'loop (iterative preemption bounding, virtual clock)',
  'text': 'The writer thread runs the real writeForever(); the main thread stores, then performs the real shutdown '
          'sequence (shutdownModifyUpdateSpeed, reactor.running=False, join). All interleavings with <=2 '
          'preemptions (thorough 3) - hence the stop at every point of the writer loop including inside its idle '
          'sleep - for all strategies, MIN_TIMESTAMP_LAG 0/5 and the rate-limit settings; when writeForever '
          'returns nothing accepted before the stop may remain in the cache, and the C03 accounting must hold.',
  'note': 'Fault-free backend; under an update limit the clock may jump by two token-times inside a blocking token acquisition (data choice). Twisted\'s shutdown order (before: triggers; during: crash() sets running False and '
          'the thread pool is joined) is taken from twisted/internet/base.py and reproduced by the harness. Under an update limit the clock may also jump inside the token bucket\'s blocking acquisition (data choice). The stop is also performed by the real WriterService (triggers + stopService, once with a dead reload task); cache queries for uncached series during the writer\'s walk; flow control with a paused client and a model of calls handed to the reactor thread (deadlock is a verdict).',
}

ALL_STRATS = ('sorted', 'max', 'naive', 'timesorted', 'bucketmax', 'random')


def jobs(ctx):
  INF = float('inf')
  out = []
  deep = ctx.pick(2, 3)
  for strat in ALL_STRATS:
    fb = 1 if strat == 'random' else 0
    limits = [dict(), dict(max_updates=1), dict(max_updates=1, updates_on_shutdown=1000), dict(max_creates=1)]
    for li, lim in enumerate(limits):
      for lag in ((0, 5) if strat == 'timesorted' else (0,)):
        p = {'strategy': strat, 'lag': lag, 'files': ('a',), 'init': [('a', 1000 if lag else 1, 1.0)],
             'reactor': [('store', 'b', 1000 if lag else 1, 2.0), ('store', 'a', 1001 if lag else 2, 3.0), ('stop',)],
             'oracles': ('c03', 'c04'), 'see_buckets': bool(lim), 'line_pattern': r'cache|reactor|sleep|BUCKET|settings'}
        p.update(lim)
        b = deep if li == 0 else ctx.pick(1, 2)
        if li and not ctx.thorough and strat not in ('sorted', 'timesorted'):
          continue
        out.append((p, (b, fb)))
        if li == 0 and lag == 0 and strat in ('sorted', 'max', 'timesorted'):
          # a cache query for a series that holds nothing, served on the reactor thread while the writer walks the cache
          out.append((dict(p, reactor=[p['reactor'][0], ('query', 'zz'), p['reactor'][1], ('query', 'yy'), p['reactor'][2]]), (2 if strat == 'sorted' else ctx.pick(1, 2), fb)))
        if li == 0 and lag == 0 and strat in ('sorted', 'max'):
          # flow control with a paused client connected when the stop arrives: the final flush crosses the low watermark and
          # resumes the receivers FROM THE WRITER THREAD while the reactor thread is joining it
          out.append((dict(p, receiver=True, max_cache=2, flow=True, init=[('a', 1, 1.0), ('a', 2, 1.5)],
                           reactor=[('store', 'b', 1, 2.0), ('stop',)]), (2, fb)))
        if li == 0 and strat in ('timesorted', 'sorted'):
          # the stop as the daemon's own service object performs it (WriterService started for real; twisted's 'before
          # shutdown' triggers, then stopService), also after one of its periodic reload tasks has died
          for dead in (False, True):
            out.append((dict(p, service_stop=True, reload_task_dead=dead), (1, fb)))
        if lim.get('max_updates') and strat in ('sorted', 'random'):
          # the clock moving inside a blocking token acquisition (a descheduled writer) is an environment choice
          out.append((dict(p, clock_jumps=True), (1, fb + 1)))
  return out


def run(ctx):
  writerh.run_jobs(ctx, jobs(ctx), 'C04', required=('write_ok', 'writer_slept_before_stop', 'store_after_first_drain'))
  ctx.add(bounds={'preemptions': ctx.pick(2, 3), 'stores_before_stop': 2, 'lag': [0, 5],
                  'limits': ['none', 'updates 1/s', 'updates 1/s + ON_SHUTDOWN 1000', 'creates 1/min']})
  ctx.assumptions += ['fault-free backend', 'stop sequence = shutdownModifyUpdateSpeed(); reactor.running=False; join']


def replay(path):
  return writerh.replay_schedule(path)
