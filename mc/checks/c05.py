"""C05 - hash routing returns a well-formed replica set for every metric.

Bounded-exhaustive enumeration (engine E4): destination subsets x replication factor x
DIVERSE_REPLICAS x hash type x router class x ring positions, all through the real routers.
"""
import itertools
import json
import os

from .. import core, env, ringkeys

LEVEL = 'exploration'
MANIFEST = {
  'engine': 'enumx',
  'technique': 'bounded-exhaustive enumeration of destination sets x RF x DIVERSE x hash type x router '
               'class over ring positions (all 65536 where stated) on the real routers',
  'text': 'Every element of an explicit finite configuration product is routed through the real '
          'getDestinations() for every ring position (all 65536 for the listed configurations, the '
          'boundary positions of every ring entry for the rest) and checked for cardinality, membership, '
          'distinctness, server diversity and repeatability. Exhaustive within that product.',
  'note': 'Trusted: the key table (one metric name per ring position, built with the reference hash in '
          'mc/ref/ring.py). mmh3/pyhash are absent, so only carbon_ch and fnv1a_ch are covered. Random metric '
          'names of the quantifier are replaced by exhaustive position coverage. Aggregation-aware variants are also run with two stub rules (a metric feeding two aggregates: union of both complete routings), and per hash type a pair of destinations with colliding node hashes is searched and routed.',
}

UNIVERSE = [
  ('10.0.0.1', 2004, 'a'), ('10.0.0.1', 2104, 'b'), ('10.0.0.1', 2204, 'c'),
  ('10.0.0.2', 2004, 'a'), ('10.0.0.2', 2104, 'b'),
  ('10.0.0.3', 2004, 'a'), ('10.0.0.3', 2104, 'd'),
  ('10.0.0.4', 2004, None),        # a destination written as host:port (no instance label)
]
ROUTERS = ('consistent-hashing', 'fast-hashing', 'aggregated-consistent-hashing', 'fast-aggregated-hashing')


class S(dict):
  __getattr__ = dict.__getitem__


def make_router(cfg):
  env.boot()
  from carbon.routers import DatapointRouter
  from carbon.conf import settings as real
  s = S(real)
  s['REPLICATION_FACTOR'] = cfg['rf']
  s['DIVERSE_REPLICAS'] = cfg['diverse']
  s['ROUTER_HASH_TYPE'] = cfg['hash']
  s['aggregation-rules'] = None
  if 'aggregated' in cfg['router']:
    from carbon.aggregator.rules import RuleManager
    RuleManager.rules = []
  r = DatapointRouter.plugins[cfg['router']](s)
  for d in cfg['dests']:
    r.addDestination(tuple(d))
  return r


def positions_for(cfg, router, full):
  if full:
    return range(65536)
  ring = getattr(router, 'ring', None) or router.hash_router.ring
  pts = {0, 1, 65534, 65535}
  entries = getattr(ring, 'ring', None)
  if entries is not None:
    for p, _ in entries:
      for q in (p - 1, p, p + 1):
        if 0 <= q < 65536:
          pts.add(q)
  else:
    n = max(1, len(ring.nodes))
    pts.update(range(0, 4 * n + 2))
    pts.update(range(65536 - 4 * n - 2, 65536))
  return sorted(pts)


def check_one(cfg, router, key):
  """Return None or (cause key, description)."""
  dests = [tuple(d) for d in cfg['dests']]
  ordered = 'aggregated' not in cfg['router']
  try:
    got = list(router.getDestinations(key))
    again = list(router.getDestinations(key))
  except Exception as e:   # noqa
    return ('exception', 'getDestinations raised %r' % (e,))
  servers = set(d[0] for d in dests)
  eligible = len(servers) if cfg['diverse'] else len(dests)
  want = min(cfg['rf'], eligible)
  single = 'single-node' if len(dests) == 1 else 'multi-node'
  if len(set(got)) != len(got):
    return ('repeat:' + single, 'destination repeated: %r' % (got,))
  if len(got) != want:
    return ('cardinality:' + single, 'expected %d destinations, got %r' % (want, got))
  for d in got:
    if d not in dests:
      return ('unconfigured', 'destination %r is not configured' % (d,))
  if cfg['diverse'] and len(set(d[0] for d in got)) != len(got):
    return ('same-server', 'DIVERSE_REPLICAS but two replicas share a server: %r' % (got,))
  if (got != again) if ordered else (set(got) != set(again)):
    return ('unstable', 'same key routed differently on a second call: %r vs %r' % (got, again))
  return None


def run_cfg(arg):
  cfg, full = arg
  table = ringkeys.table(cfg['hash'])
  router = make_router(cfg)
  pts = positions_for(cfg, router, full)
  n = 0
  bad = []
  shapes = set()
  for p in pts:
    key = table[p]
    r = check_one(cfg, router, key)
    n += 1
    if r is not None:
      if len(bad) < 3:
        bad.append((r[0], r[1], {'cfg': cfg, 'key': key, 'position': p}))
    else:
      shapes.add(tuple(router.getDestinations(key)) if 'aggregated' not in cfg['router'] else
                 tuple(sorted(router.getDestinations(key))))
  # aggregation-aware variants: hash routing is applied to EACH aggregate name a metric feeds.  Two stub rules map
  # the metric at ring position p to aggregate names at two other positions; the result must be the union of the
  # (complete) hash routings of both names, each of which must itself be well formed.
  if 'aggregated' in cfg['router']:
    from carbon.aggregator.rules import RuleManager

    class StubRule(object):
      def __init__(self, f):
        self.f = f

      def get_aggregate_metric(self, metric):
        return self.f(metric)
    pos_of = {}
    RuleManager.rules = [StubRule(lambda m: table[(pos_of[m] + 21845) % 65536] if m in pos_of else None),
                         StubRule(lambda m: table[(pos_of[m] * 3 + 7) % 65536] if m in pos_of else None)]
    plain = dict(cfg, router='consistent-hashing')
    try:
      for p in pts if not full else positions_for(cfg, router, False):
        key = table[p]
        pos_of.clear()
        pos_of[key] = p
        names = [r.get_aggregate_metric(key) for r in RuleManager.rules]
        n += 1
        try:
          got = list(router.getDestinations(key))
          parts = [list(router.hash_router.getDestinations(a)) for a in names]
        except Exception as e:   # noqa
          bad.append(('exception', 'getDestinations raised %r' % (e,), {'cfg': cfg, 'key': key, 'position': p, 'aggregates': names}))
          break
        v = None
        for a, part in zip(names, parts):
          v = v or check_one(plain, router.hash_router, a)
        want = set(parts[0]) | set(parts[1])
        if v is None and (set(got) != want or len(got) != len(set(got))):
          v = ('aggregate-union', 'metric feeding the aggregates %r routed to %r; the hash destinations of the aggregate names '
               'are %r and %r' % (names, got, parts[0], parts[1]))
        if v is not None and len(bad) < 3:
          bad.append((v[0] + ':two-aggregates', v[1], {'cfg': cfg, 'key': key, 'position': p, 'aggregates': names}))
    finally:
      RuleManager.rules = []
  # membership changes at run time (DYNAMIC_ROUTER, stopClient): remove each destination in turn, check the
  # router as a configuration of the remaining ones, re-add it and check again
  if len(cfg['dests']) >= 2 and not cfg.get('static'):
    bpts = positions_for(cfg, router, False)
    for r in cfg['dests']:
      router.removeDestination(tuple(r))
      sub = dict(cfg, dests=[d for d in cfg['dests'] if d != r])
      for p in bpts[::3]:
        key = table[p]
        v = check_one(sub, router, key)
        n += 1
        if v is not None and len(bad) < 3:
          bad.append((v[0] + ':after-remove', '%s (after removeDestination(%r))' % (v[1], tuple(r)),
                      {'cfg': cfg, 'key': key, 'position': p, 'removed': list(r)}))
      router.addDestination(tuple(r))
      for p in bpts[::3]:
        key = table[p]
        v = check_one(cfg, router, key)
        n += 1
        if v is not None and len(bad) < 3:
          bad.append((v[0] + ':after-readd', '%s (after removing and re-adding %r)' % (v[1], tuple(r)),
                      {'cfg': cfg, 'key': key, 'position': p, 'removed': list(r), 'readded': True}))
      # swap: remove r and add another destination with NO lookup in between (same ring size, other members)
      others = [d for d in UNIVERSE if d not in cfg['dests']]
      if others:
        x = others[(cfg['dests'].index(r)) % len(others)]
        router.removeDestination(tuple(r))
        router.addDestination(tuple(x))
        swapped = dict(cfg, dests=[d for d in cfg['dests'] if d != r] + [x])
        for p in bpts[::3]:
          key = table[p]
          v = check_one(swapped, router, key)
          n += 1
          if v is not None and len(bad) < 3:
            bad.append((v[0] + ':after-swap', '%s (after replacing %r by %r without a lookup in between)' % (v[1], tuple(r), tuple(x)),
                        {'cfg': cfg, 'key': key, 'position': p, 'removed': list(r), 'added': list(x)}))
        router.removeDestination(tuple(x))
        router.addDestination(tuple(r))
    # membership requests the router may refuse (same server and instance under another port: a duplicate add, a removal
    # naming the wrong port): whether it refuses or obeys, it must stay consistent with its own account of what is configured
    for r in cfg['dests'][:2]:
      other = (r[0], r[1] + 7, r[2])
      for opname, op in (('addDestination', router.addDestination), ('removeDestination', router.removeDestination)):
        try:
          op(other)
          outcome = 'accepted'
        except Exception as e:   # noqa
          outcome = 'refused (%s)' % (str(e)[:60],)
        now = [d for d in cfg['dests'] if router.hasDestination(tuple(d))]
        sub = dict(cfg, dests=[d if tuple(d) != tuple(r) or opname != 'addDestination' or outcome != 'accepted' else list(other) for d in now])
        for p in bpts[::3]:
          key = table[p]
          v = check_one(sub, router, key) if now else None
          n += 1
          if v is not None and v[0] != 'unconfigured' and len(bad) < 3:
            bad.append((v[0] + ':after-refusable-request', '%s (after %s(%r) was %s; the router reports %d destinations configured)' % (
              v[1], opname, other, outcome, len(now)), {'cfg': cfg, 'key': key, 'position': p, 'request': [opname, list(other)]}))
        # restore the configuration
        if not router.hasDestination(tuple(r)):
          try:
            router.addDestination(tuple(r))
          except Exception:   # noqa
            pass
        elif outcome == 'accepted' and opname == 'addDestination':
          router.removeDestination(other)
          router.addDestination(tuple(r))
  return n, len(shapes), bad


_coll = {}


def colliding_nodes(hash_type):
  """Two destinations on different servers whose NODE hashes (carbonHash(str((server, instance))), 16 bits) are equal:
  the fast ring sorts nodes by that hash, so this is the tie case of its table."""
  if hash_type not in _coll:
    env.boot()
    from carbon.hashing import carbonHash
    seen = {}
    found = None
    for i in range(200000):
      node = ('10.0.%d.%d' % (1 + i % 2, 1 + (i // 2) % 3), 'i%d' % i)
      h = carbonHash(str(node), hash_type)
      if h in seen and seen[h][0] != node[0]:
        found = (seen[h], node)
        break
      seen.setdefault(h, node)
    if found is None:
      raise core.HarnessError('C05: no colliding node pair found for %s' % hash_type)
    _coll[hash_type] = [(found[0][0], 2004, found[0][1]), (found[1][0], 2004, found[1][1])]
  return _coll[hash_type]


def configs(ctx):
  sizes = ctx.pick((1, 2, 3, 8), (1, 2, 3, 4, 5, 6, 7, 8))
  out = []
  for k in sizes:
    for sub in itertools.combinations(range(len(UNIVERSE)), k):
      orders = [sub]
      if k > 1:
        orders.append(sub[1:] + sub[:1])
        if ctx.thorough and k > 2:
          orders.append(sub[::-1])
      for oi, order in enumerate(orders):
        for hash_type in ('carbon_ch', 'fnv1a_ch'):
          for router in ROUTERS:
            if oi and router != 'consistent-hashing':
              continue   # insertion order only matters to the bumping ring
            for rf in (1, 2, 3, 4):
              for diverse in (False, True):
                out.append({'dests': [UNIVERSE[i] for i in order], 'rf': rf, 'diverse': diverse,
                            'hash': hash_type, 'router': router})
  # destinations whose node hashes collide (the tie case of the fast ring's sorted table)
  for hash_type in ('carbon_ch', 'fnv1a_ch'):
    pair = colliding_nodes(hash_type)
    for dests in (pair, pair + [UNIVERSE[0]], [UNIVERSE[3]] + pair):
      for router in ROUTERS:
        for rf in (1, 2, 3):
          for diverse in (False, True):
            out.append({'dests': list(dests), 'rf': rf, 'diverse': diverse, 'hash': hash_type, 'router': router, 'static': True})
  return out


def run(ctx):
  env.boot()
  for h in ('carbon_ch', 'fnv1a_ch'):
    ringkeys.table(h)     # built once, inherited by the forked workers
  cfgs = core.seeded_order(configs(ctx), ctx.seed)
  # all 65536 positions: thorough = every canonical-order configuration up to 4 nodes + all single
  # and full sets; quick = a fixed slice (every one- and two-destination set, RF 1..4)
  def full(cfg):
    k = len(cfg['dests'])
    if any(d not in UNIVERSE for d in cfg['dests']):
      return 'fast' in cfg['router'] and (k == 2 or ctx.thorough)     # the colliding-node configurations
    canonical = cfg['dests'] == sorted(cfg['dests'], key=UNIVERSE.index)
    if not canonical:
      return False
    if ctx.thorough:
      return k <= 3 or k == 8 or (k == 4 and cfg['rf'] == 2 and cfg['router'] == 'consistent-hashing')
    plain = cfg['router'] in ('consistent-hashing', 'fast-hashing')
    idx = tuple(UNIVERSE.index(d) for d in cfg['dests'])
    return plain and (idx in ((0,), (7,)) or (idx in ((0, 1), (0, 3), (0, 1, 3), (0, 3, 5))
                                               and cfg['rf'] in (2, 3)))
  results = core.pmap(run_cfg, [(c, full(c)) for c in cfgs], chunksize=8)
  evals = shapes = 0
  nfull = 0
  for cfg, (n, nshapes, bad) in zip(cfgs, results):
    evals += n
    shapes += nshapes
    if n == 65536:
      nfull += 1
    for key, what, rep in bad:
      ctx.violation(key, '%s | router=%s hash=%s rf=%d diverse=%s dests=%r key=%r' % (
        what, cfg['router'], cfg['hash'], cfg['rf'], cfg['diverse'], cfg['dests'], rep['key']), rep)
  ctx.add(evaluations=evals, distinct_nontrivial=shapes, configurations=len(cfgs),
          configurations_with_all_65536_positions=nfull, exhaustive=True,
          rule='every (destination subset, order, RF 1..4, DIVERSE on/off, carbon_ch|fnv1a_ch, 4 router '
               'classes) x ring positions (all 65536 where stated, else p-1,p,p+1 of every ring entry and '
               'the ends); distinct_nontrivial = number of distinct (configuration, ordered destination '
               'list) results that passed the oracle',
          space_digest=core.digest(sorted(json.dumps(c, sort_keys=True) for c in cfgs)))
  for c in cfgs[:3]:
    try:
      dsts = list(make_router(c).getDestinations(ringkeys.table(c['hash'])[12345]))
    except Exception as e:   # noqa - already reported as a violation by the sweep
      dsts = 'raised %r' % (e,)
    ctx.sample({'cfg': c, 'key': ringkeys.table(c['hash'])[12345], 'destinations': dsts})
  ctx.assumptions += ['mmh3/pyhash absent: hash types carbon_ch and fnv1a_ch only',
                      'keys: one metric name per ring position (hash of the name verified by the reference)']
  if not shapes:
    raise core.HarnessError('C05: no configuration produced a routed destination list')


def replay(path):
  body = json.load(open(path))
  rep = body['replay']
  cfg = rep['cfg']
  cfg['dests'] = [tuple(d) for d in cfg['dests']]
  router = make_router(cfg)
  if rep.get('added'):
    list(router.getDestinations(rep['key']))
    router.removeDestination(tuple(rep['removed']))
    router.addDestination(tuple(rep['added']))
    cfg = dict(cfg, dests=[d for d in cfg['dests'] if d != tuple(rep['removed'])] + [tuple(rep['added'])])
  elif rep.get('request'):
    opname, other = rep['request']
    try:
      getattr(router, opname)(tuple(other))
      print('%s(%r) accepted' % (opname, tuple(other)))
    except Exception as e:   # noqa
      print('%s(%r) refused: %s' % (opname, tuple(other), e))
    cfg = dict(cfg, dests=[d for d in cfg['dests'] if router.hasDestination(tuple(d))])
  elif rep.get('removed'):
    router.removeDestination(tuple(rep['removed']))
    if rep.get('readded'):
      router.addDestination(tuple(rep['removed']))
    else:
      cfg = dict(cfg, dests=[d for d in cfg['dests'] if d != tuple(rep['removed'])])
  print('config:', cfg)
  if rep.get('aggregates'):
    from carbon.aggregator.rules import RuleManager

    class StubRule(object):
      def __init__(self, name):
        self.name = name

      def get_aggregate_metric(self, metric):
        return self.name if metric == rep['key'] else None
    RuleManager.rules = [StubRule(a) for a in rep['aggregates']]
    got = list(router.getDestinations(rep['key']))
    parts = [list(router.hash_router.getDestinations(a)) for a in rep['aggregates']]
    print('key %r feeding aggregates %r ->' % (rep['key'], rep['aggregates']), got)
    print('hash routing of the aggregate names:', parts)
    ok = set(got) == set(parts[0]) | set(parts[1]) and len(got) == len(set(got))
    print('oracle:', 'holds' if ok else 'VIOLATED')
    return 0 if ok else 1
  print('key %r ->' % rep['key'], list(router.getDestinations(rep['key'])))
  r = check_one(cfg, router, rep['key'])
  print('oracle:', r or 'holds')
  return 1 if r else 0
