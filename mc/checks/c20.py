"""C20 - update and create rate limits hold over every time window."""
import copy
import itertools
import json

from .. import core, env

LEVEL = 'model_checking'
MANIFEST = {
  'engine': 'evx',
  'technique': 'exhaustive depth-first enumeration of all operation histories (non-blocking/blocking acquisitions, clock '
               'advances incl. huge steps, limit change) of the real TokenBucket on a virtual clock, every window between '
               'two grants checked; plus the real writer with both buckets and the shutdown limit change at every position',
  'text': 'For 5 (capacity, rate) configurations from (1, 1/60) to (1000, 1000) every history of up to 7 (thorough 9) '
          'events over {drain, blocking drain, advance by 1/(2r), 1/r, c/r, 1e6 s, setCapacityAndFillRate} is executed on the '
          'real carbon.util.TokenBucket with carbon.util.time/sleep virtual. After every grant all windows ending at it '
          'are checked against rate x w + 2 x burst (the real bucket attains 2 x burst, so the bound is tight); every '
          'blocking acquisition must sleep no longer than the deficit of an ideal continuously refilled bucket divided '
          'by the rate; windows after a limit change are held to the new limits. Writer level: 6 new metrics through '
          'writeCachedDataPoints() with MAX_UPDATES_PER_SECOND and MAX_CREATES_PER_MINUTE on, shutdownModifyUpdateSpeed() '
          'injected before every backend call, same window check on the virtual call times of create() and write().',
  'note': 'States are not merged (the window oracle depends on the whole grant history), so states = histories. '
          'Rates and capacities outside the 5 configurations and costs other than 1 token are not covered. Writer level also under six backend fault patterns; windows are computed over create()/write() call times whether or not the call succeeded. Limits written in a [cache:b] section go through the real start-up and every resulting setting is carried into the writer process. A shutdown rate below the regular one; the change applied through the triggers the real WriterService registers with the reactor (tags on/off).',
}

EPS = 1e-6
CONFIGS = [(1, 1.0), (1, 1.0 / 60), (2, 0.5), (5, 5.0), (1000, 1000.0)]


class Clock(object):
  def __init__(self):
    self.now = 1000.0
    self.slept = []
    self.jump = 0.0       # real clocks move between two reads inside one operation: advance by `jump` after the next read

  def time(self):
    t = self.now
    if self.jump:
      self.now += self.jump
      self.jump = 0.0
    return t

  def sleep(self, dt):
    if dt < 0:
      raise ValueError('sleep length must be non-negative')     # as time.sleep() does
    self.slept.append(dt)
    if dt > 0:
      self.now += dt


class Ideal(object):
  """Continuously refilled token bucket (the textbook one), for the deficit of a blocking acquisition."""

  def __init__(self, c, r, now):
    self.c, self.r, self.tokens, self.t = float(c), float(r), float(c), now

  def refill(self, now):
    self.tokens = min(self.c, self.tokens + self.r * (now - self.t))
    self.t = now

  def take(self, now):
    self.refill(now)
    self.tokens -= 1

  def deficit(self, now):
    self.refill(now)
    return max(0.0, 1 - self.tokens)

  def change(self, c, r, now):
    self.refill(now)
    self.tokens += float(c) - self.c
    self.c, self.r = float(c), float(r)


def window_violation(grants, limits):
  """grants: [t...]; limits: [(t_from, c, r)] in effect.  Check all windows ending at the last grant."""
  tj = grants[-1]
  n = len(grants)
  for i in range(n - 1, -1, -1):
    ti = grants[i]
    # limits in effect at any time during [ti, tj]
    cs = []
    rs = []
    for k, (tf, c, r) in enumerate(limits):
      tend = limits[k + 1][0] if k + 1 < len(limits) else float('inf')
      if tf <= tj and tend > ti or (tend == ti and k + 1 == len(limits)):
        cs.append(c)
        rs.append(r)
    if not cs:
      cs, rs = [limits[-1][1]], [limits[-1][2]]
    count = n - i
    bound = max(rs) * (tj - ti) + 2 * max(cs)
    if count > bound + EPS * count + EPS:
      return 'in the window [%r, %r] (length %r) %d acquisitions were granted; rate %r x w + 2 x burst %r = %r' % (
        ti, tj, tj - ti, count, max(rs), max(cs), bound)
  return None


def dfs_shard(arg):
  (c, r), first_events, depth = arg
  env.boot()
  import carbon.util
  clock = Clock()
  saved = (carbon.util.time, carbon.util.sleep)
  carbon.util.time = clock.time
  carbon.util.sleep = clock.sleep
  new = (max(2 * c, 2), 2 * r)
  events = ['d', 'b', 'bj', ('a', 1.0 / (2 * r)), ('a', 1.0 / r), ('a', c / r), ('a', 1e6), 's']
  stats = {'n': 0, 'grants': 0, 'blocked': 0, 'refused': 0, 'maxburst': 0}
  bad = []
  try:
    def step(bucket, ideal, now, grants, limits, ev, hist):
      """apply ev on (copies of) the state; returns new state or None on violation"""
      clock.now = now
      clock.slept = []
      clock.jump = 0.0
      if ev in ('d', 'b', 'bj'):
        if ev == 'bj':
          clock.jump = 1.0 / ideal.r          # the thread is descheduled for one token's worth of time after its first clock read
          ev = 'b'
        try:
          ok = bucket.drain(1, blocking=(ev == 'b'))
        except Exception as e:   # noqa
          bad.append(('acquisition-raised', 'drain(1, blocking=%r) raised %r after %r' % (ev == 'b', e, hist), hist))
          return None
        clock.jump = 0.0
        now2 = clock.now
        if ev == 'b':
          if ok is not True:
            bad.append(('blocking-refused', 'blocking drain returned %r after %r' % (ok, hist), hist))
            return None
          slept = sum(x for x in clock.slept if x > 0)
          deficit = ideal.deficit(now)
          ideal.refill(now)
          if slept > deficit / ideal.r + EPS:
            bad.append(('overslept', 'blocking acquisition slept %r s; deficit %r tokens at rate %r/s needs %r s (history %r)' % (
              slept, deficit, ideal.r, deficit / ideal.r, hist), hist))
            return None
          if slept > 0:
            stats['blocked'] += 1
        if ok:
          grants = grants + [now2]
          ideal.take(now2)
          stats['grants'] += 1
          v = window_violation(grants, limits)
          if v:
            bad.append(('rate-exceeded', '%s (capacity %r, rate %r, history %r)' % (v, c, r, hist), hist))
            return None
          same = sum(1 for g in grants if g == now2)
          stats['maxburst'] = max(stats['maxburst'], same)
        else:
          stats['refused'] += 1
        return now2, grants, limits
      if ev == 's':
        bucket.setCapacityAndFillRate(new[0], new[1])
        ideal.change(new[0], new[1], now)
        return now, grants, limits + [(now, new[0], new[1])]
      return now + ev[1], grants, limits

    def rec(bucket, ideal, now, grants, limits, hist, d):
      for ev in events:
        if ev == 's' and len(limits) > 1:
          continue
        if bad:
          return
        b2 = copy.copy(bucket)
        i2 = copy.copy(ideal)
        h2 = hist + [ev]
        stats['n'] += 1
        r2 = step(b2, i2, now, grants, limits, ev, h2)
        if r2 is None:
          return
        if d > 1:
          rec(b2, i2, r2[0], r2[1], r2[2], h2, d - 1)

    # replay the shard prefix, then enumerate below it
    clock.now = 1000.0
    bucket = carbon.util.TokenBucket(c, r)      # created at virtual now
    ideal = Ideal(c, r, 1000.0)
    state = (1000.0, [], [(0.0, c, r)])
    hist = []
    okp = True
    for ev in first_events:
      if ev == 's' and len(state[2]) > 1:
        okp = False
        break
      hist = hist + [ev]
      stats['n'] += 1
      r2 = step(bucket, ideal, state[0], state[1], state[2], ev, hist)
      if r2 is None:
        okp = False
        break
      state = r2
    if okp and depth > len(first_events):
      rec(bucket, ideal, state[0], state[1], state[2], hist, depth - len(first_events))
  finally:
    carbon.util.time, carbon.util.sleep = saved
  return stats, bad[:2], [(c, r)]


# ---- writer level ---------------------------------------------------------------------------------------------------
FAULT_PATTERNS = (None, 'create:all', 'create:round0', 'create:round1-2', 'create:odd', 'write:all', 'write:odd')


def writer_case(arg):
  inject_at, on_shutdown, failing, spelling = (tuple(arg) + (None, None))[:4]
  settings = env.boot()
  env.private_conf()
  env.reset_state()
  import importlib
  import carbon.util
  from carbon import state
  from ..doubles.verifmem import VerifMemDatabase
  clock = Clock()
  saved = (carbon.util.time, carbon.util.sleep)
  carbon.util.time = clock.time
  carbon.util.sleep = clock.sleep
  bad = []
  try:
    settings['MAX_UPDATES_PER_SECOND'] = 2
    settings['MAX_CREATES_PER_MINUTE'] = 2
    settings['CACHE_WRITE_STRATEGY'] = 'sorted'
    settings['MAX_CACHE_SIZE'] = float('inf')
    settings.pop('MAX_UPDATES_PER_SECOND_ON_SHUTDOWN', None)
    if on_shutdown is not None:
      settings['MAX_UPDATES_PER_SECOND_ON_SHUTDOWN'] = on_shutdown
    env.apply_daemon_cache_limits(settings)
    if spelling and not spelling.startswith('service'):
      # the same limits as the daemon's real start-up leaves them when they are written in a [cache:<instance>] section that
      # overrides more generous ones in [cache]: EVERY setting the start-up produced is carried over (also ones this harness
      # has never heard of), then the writer module builds its buckets from them as it does at import
      from .. import daemonconf
      over = {'MAX_UPDATES_PER_SECOND': '2', 'MAX_CREATES_PER_MINUTE': '2'}
      if on_shutdown is not None:
        over['MAX_UPDATES_PER_SECOND_ON_SHUTDOWN'] = repr(on_shutdown)
      base = {'MAX_UPDATES_PER_SECOND': '500', 'MAX_CREATES_PER_MINUTE': '600'} if spelling == 'instance-over-larger' else {}
      full = daemonconf.full_settings('carbon-cache', base, over, 'b')
      for k, v in full.items():
        settings[k] = daemonconf._dec(v) if isinstance(v, str) else v
      if settings['MAX_UPDATES_PER_SECOND'] != 2 or settings['MAX_CREATES_PER_MINUTE'] != 2:
        bad.append(('writer-rate-exceeded:config', 'start-up with [cache:b] MAX_UPDATES_PER_SECOND=2 MAX_CREATES_PER_MINUTE=2 over %r yields %r / %r' % (
          base, settings['MAX_UPDATES_PER_SECOND'], settings['MAX_CREATES_PER_MINUTE']), {'spelling': spelling}))
    import carbon.writer
    importlib.reload(carbon.writer)

    class VT(object):
      time = staticmethod(clock.time)
      sleep = staticmethod(clock.sleep)
    carbon.writer.time = VT
    calls = {'n': 0, 'round': 0, 'create': 0, 'write': 0, 'faults': 0}
    changed_at = [None]

    shutdown_triggers = None
    if spelling and spelling.startswith('service'):
      # the daemon's own service object registers what the reactor runs before a shutdown: start the real WriterService
      # against a recording reactor (tags on / off) and let the "shutdown" be those registered triggers, nothing else
      from ..writerh import ReactorDouble
      from twisted.internet.task import Clock as TClock
      settings['ENABLE_TAGS'] = (spelling == 'service-tags')
      rd = ReactorDouble()
      carbon.writer.reactor = rd
      svc = carbon.writer.WriterService()
      for task in (svc.storage_reload_task, svc.aggregation_reload_task):
        task.clock = TClock()
      svc.startService()
      shutdown_triggers = [(f, a, k) for ph, ev, f, a, k in getattr(rd, 'triggers', []) if (ph, ev) == ('before', 'shutdown')]
      svc.stopService()

    def fault(op, metric):
      if calls['n'] == inject_at:
        changed_at[0] = clock.now
        if shutdown_triggers is not None:
          for f, a, k in shutdown_triggers:
            f(*a, **k)
        else:
          carbon.writer.shutdownModifyUpdateSpeed()
      calls['n'] += 1
      if failing and op == failing.split(':')[0]:
        calls[op] += 1
        how = failing.split(':')[1]
        hit = (how == 'all' or (how == 'round0' and calls['round'] == 0) or (how == 'round1-2' and calls['round'] in (1, 2))
               or (how == 'odd' and calls[op] % 2 == 1))
        if hit:
          calls['faults'] += 1
          return True
      return False
    db = VerifMemDatabase(fault=fault, clock=clock.time)
    state.database = db
    cache = carbon.writer.MetricCache()
    for i in range(6):
      cache.store('m%d' % i, (1, float(i)))
    for rounds in range(4):
      calls['round'] = rounds
      carbon.writer.writeCachedDataPoints()
      clock.now += 30.0
      for i in range(6):
        cache.store('m%d' % i, (2 + rounds, float(i)))
    for op, (c0, r0) in (('write', (2, 2.0)), ('create', (2, 2.0 / 60))):
      # call times of the backend operation, whether or not the call succeeded (a failing disk is when the limit matters)
      times = [e[3] for e in db.log if e[0] == op]
      limits = [(0.0, c0, r0)]
      if changed_at[0] is not None and on_shutdown is not None:
        limits.append((changed_at[0], on_shutdown, float(on_shutdown)))
      for j in range(1, len(times) + 1):
        v = window_violation(times[:j], limits)
        if v:
          bad.append(('writer-rate-exceeded:' + op, 'backend %s calls: %s (shutdown change injected before backend call %r, '
                      'MAX_UPDATES_PER_SECOND_ON_SHUTDOWN=%r, failing backend calls: %r, configuration/trigger path: %s)' % (op, v, inject_at, on_shutdown, failing, spelling or 'direct'),
                      {'inject_at': inject_at, 'on_shutdown': on_shutdown, 'failing': failing, 'spelling': spelling}))
          break
    nw = sum(1 for e in db.log if e[0] == 'write')
    ncr = sum(1 for e in db.log if e[0] == 'create')
  finally:
    carbon.util.time, carbon.util.sleep = saved
  return {'writes': nw, 'creates': ncr, 'calls': calls['n'], 'faults': calls['faults']}, bad


def run(ctx):
  env.boot()
  depth = ctx.pick(7, 9)
  plen = 2 if not ctx.thorough else 3
  evnames = ['d', 'b', 'a0', 'a1', 'a2', 'a3', 's']
  tasks = []
  for (c, r) in CONFIGS:
    events = ['d', 'b', 'bj', ('a', 1.0 / (2 * r)), ('a', 1.0 / r), ('a', c / r), ('a', 1e6), 's']
    for pre in itertools.product(events, repeat=plen):
      tasks.append(((c, r), list(pre), depth))
  tasks = core.seeded_order(tasks, ctx.seed)
  res = core.pmap(dfs_shard, tasks, chunksize=4)
  total = {'n': 0, 'grants': 0, 'blocked': 0, 'refused': 0, 'maxburst': {}}
  for st, bad, cfg in res:
    for k in ('n', 'grants', 'blocked', 'refused'):
      total[k] += st[k]
    total['maxburst'][repr(cfg[0])] = max(total['maxburst'].get(repr(cfg[0]), 0), st['maxburst'])
    for key, what, hist in bad:
      ctx.violation(key, what, {'config': cfg[0], 'history': hist})
  wtasks = [(i, s, None) for s in (None, 10) for i in ([None] + list(range(0, 40)))]
  wtasks += [(i, s, f) for f in FAULT_PATTERNS[1:] for s in (None, 10) for i in (None, 0, 3, 7)]
  wtasks += [(i, s, None, sp) for sp in ('instance-over-larger', 'instance-only') for s in (None, 10, 1) for i in (None, 2)]
  # a shutdown rate BELOW the regular one (the operator wants a gentle shutdown): it is a limit like any other
  wtasks += [(i, 1, None) for i in (0, 3, 7, 12)]
  # the change as the reactor would trigger it: whatever the real WriterService registered 'before shutdown' (tags on / off)
  wtasks += [(i, s, None, sp) for sp in ('service-tags', 'service-notags') for s in (1, 10) for i in (0, 3)]
  wres = core.pmap(writer_case, wtasks, fresh=True)
  wcalls = wfaults = 0
  for st, bad in wres:
    wcalls += st['calls']
    wfaults += st['faults']
    for key, what, rep in bad:
      ctx.violation(key, what, rep)
  if not total['blocked'] or not total['refused']:
    raise core.HarnessError('C20: no blocking wait / no refused acquisition was explored')
  # the histories are paths of a tree: every prefix is a state
  ctx.add(states=total['n'] + 1, transitions=total['n'], traces_validated_against_impl=total['n'], grants=total['grants'],
          blocking_waits=total['blocked'], refused=total['refused'], depth=depth, configurations=[list(x) for x in CONFIGS],
          max_simultaneous_grants=total['maxburst'], writer_cases=len(wtasks), writer_backend_calls=wcalls, writer_backend_faults_injected=wfaults,
          rule='all histories over 7 events to the stated depth per configuration (limit change at most once per history)')
  ctx.sample({'config': [2, 0.5], 'history': ['a2', 'd', 'd', 'd', 'd'], 'note': 'idle for capacity/rate then 2 x capacity grants at one instant'})
  ctx.sample({'writer': 'MAX_UPDATES_PER_SECOND=2 MAX_CREATES_PER_MINUTE=2, shutdown change before backend call 3'})


def replay(path):
  body = json.load(open(path))
  rep = body['replay']
  if 'history' in rep:
    hist = [tuple(e) if isinstance(e, list) else e for e in rep['history']]
    st, bad, _ = dfs_shard((tuple(rep['config']), hist, len(hist)))
    for key, what, _h in bad:
      print('oracle: [%s] %s' % (key, what))
    if not bad:
      print('oracle: holds')
    return 1 if bad else 0
  st, bad = writer_case((rep['inject_at'], rep['on_shutdown'], rep.get('failing'), rep.get('spelling')))
  for key, what, _r in bad:
    print('oracle: [%s] %s' % (key, what))
  return 1 if bad else 0
