"""C13 - the default unpickler cannot be made to load or call arbitrary globals."""
import json
import sys

from .. import core, env, pk

LEVEL = 'exploration'
MANIFEST = {
  'engine': 'enumx',
  'technique': 'bounded-exhaustive enumeration of global-referencing pickle programs: every (module, attribute) pair '
               'of every loaded module x lookup routes x protocol framings, every call route x canaries, nested in '
               'every slot of a datapoint list, through loads() and both pickle-speaking protocols',
  'text': 'With USE_INSECURE_UNPICKLER at its default, every (module, attribute) pair of every module loaded in the '
          'daemon process is referenced through GLOBAL and STACK_GLOBAL (protocol 0/2/4 framing), every call route '
          '(REDUCE, INST, OBJ, NEWOBJ, NEWOBJ_EX, BUILD, EXT1/2/4) targets canary callables, and each payload is '
          'also nested at depth 1-3 in the metric/value/timestamp/extra slots of a datapoint list and framed through '
          'MetricPickleReceiver and CacheManagementHandler. Monitors: a sys.addaudithook recording pickle.find_class and '
          'import events, canary flags, and a type walker over whatever loads() returns.',
  'note': 'The allow-list is pinned in the harness as it stands in the anchor ({copy_reg._reconstructor, '
          '__builtin__.object}); widening it in carbon is reported. Random names of the quantifier are replaced by the '
          'exhaustive sweep plus a few not-yet-imported module names. Every line of the connectionMade() methods is a crash point: an exception is injected there and hostile frames are then sent on the connection Twisted keeps open.',
}

ALLOW = {('copy_reg', '_reconstructor'), ('__builtin__', 'object')}
PLAIN = (type(None), bool, int, float, complex, str, bytes, bytearray, tuple, list, dict, set, frozenset)
UNLOADED = ['colorsys', 'wave', 'sndhdr', 'nntplib', 'verif_no_such_module']
DANGEROUS = [('os', 'system'), ('posix', 'system'), ('builtins', 'eval'), ('builtins', 'exec'), ('builtins', 'getattr'),
             ('builtins', 'object'), ('builtins', '__import__'), ('subprocess', 'Popen'), ('copyreg', '_reconstructor'),
             ('copy_reg', '_reconstructor'), ('__builtin__', 'object'), ('__builtin__', 'eval'), ('copy_reg', 'add_extension'),
             ('carbon.util', 'pickle'), ('mc.canary', 'fire'), ('mc.canary', 'Cls'), ('os', 'environ'), ('sys', 'modules')]

AUDIT = {'on': False, 'find_class': [], 'imports': []}
_hooked = []


def _hook(event, args):
  if not AUDIT['on']:
    return
  if event == 'pickle.find_class':
    AUDIT['find_class'].append(tuple(args))
  elif event == 'import':
    AUDIT['imports'].append(args[0])


def install_hook():
  if not _hooked:
    sys.addaudithook(_hook)
    _hooked.append(1)


def walk_plain(x, depth=0):
  if depth > 20:
    return True
  if type(x) not in PLAIN:
    return False
  if isinstance(x, (tuple, list, set, frozenset)):
    return all(walk_plain(v, depth + 1) for v in x)
  if isinstance(x, dict):
    return all(walk_plain(k, depth + 1) and walk_plain(v, depth + 1) for k, v in x.items())
  return True


def load_daemon_modules():
  env.boot()
  import carbon.service, carbon.writer, carbon.client, carbon.protocols, carbon.routers  # noqa
  import carbon.aggregator.processor, carbon.rewrite, carbon.relayrules, carbon.instrumentation  # noqa
  try:
    import carbon.manhole  # noqa
  except ImportError:
    pass
  try:
    import carbon.protobuf  # noqa
  except ImportError:
    pass
  from .. import canary  # noqa


def all_pairs():
  pairs = []
  for mname in sorted(sys.modules):
    mod = sys.modules.get(mname)
    if mod is None or '\n' in mname:
      continue
    try:
      names = sorted(k for k in vars(mod) if isinstance(k, str))
    except TypeError:
      continue
    for n in names:
      if '\n' in n or not n:
        continue
      pairs.append((mname, n))
  return pairs


def nestings(inner, depth_max=3):
  """The hostile sub-program `inner` placed in each slot of a well-formed datapoint list."""
  out = {}
  for depth in range(1, depth_max + 1):
    h = inner
    for _ in range(depth - 1):
      h = pk.tup(h)
    out['metric@%d' % depth] = pk.lst(pk.tup(h, pk.tup(pk.i(1), pk.f(1.0))))
    out['timestamp@%d' % depth] = pk.lst(pk.tup(pk.s('m'), pk.tup(h, pk.f(1.0))))
    out['value@%d' % depth] = pk.lst(pk.tup(pk.s('m'), pk.tup(pk.i(1), h)))
    out['extra@%d' % depth] = pk.lst(pk.tup(pk.s('m'), pk.tup(pk.i(1), pk.f(1.0))), h)
    out['dict-key@%d' % depth] = b'}' + h + pk.i(1) + b's'
  return out


class Probe(object):
  """Runs one payload through loads() and, framed, through both protocols; returns a violation or None."""

  def __init__(self):
    env.boot()
    env.reset_state()
    install_hook()
    from carbon.conf import settings
    from carbon.util import get_unpickler, pickle
    from carbon import events
    from carbon.protocols import MetricPickleReceiver, CacheManagementHandler
    from twisted.internet.testing import StringTransport
    from .. import canary
    self.canary = canary
    self.settings = settings
    self.pickle = pickle
    self.get_unpickler = get_unpickler
    self.delivered = []
    events.metricReceived.addHandler(lambda m, d: self.delivered.append((m, d)))
    self.rx = MetricPickleReceiver()
    self.rx_t = StringTransport()
    self.rx.makeConnection(self.rx_t)
    self.q = CacheManagementHandler()
    self.q_t = StringTransport()
    self.q.makeConnection(self.q_t)
    self.loads_calls = 0

  def loads(self, payload):
    up = self.get_unpickler(insecure=self.settings.USE_INSECURE_UNPICKLER)
    self.loads_calls += 1
    return up.loads(payload)

  def check(self, payload, refs, what, framed=True):
    """refs: the (module, name) pairs the payload tries to reach."""
    can = self.canary
    del can.FIRED[:]
    AUDIT['find_class'] = []
    AUDIT['imports'] = []
    AUDIT['on'] = True
    outcome = None
    try:
      try:
        obj = self.loads(payload)
        outcome = ('returned', obj)
      except BaseException as e:   # noqa
        outcome = ('raised', e)
      if framed:
        n0 = len(self.delivered)
        for proto, tr in ((self.rx, self.rx_t), (self.q, self.q_t)):
          try:
            proto.dataReceived(pk.frame(payload))
          except BaseException:   # noqa - C11 decides about escaping exceptions
            pass
          tr.clear()
          if getattr(tr, 'disconnecting', False):
            tr.disconnecting = False
        self.loads_calls += 2
    finally:
      AUDIT['on'] = False
    hostile = [r for r in refs if r not in ALLOW]
    if can.FIRED:
      return ('canary-called', '%s: canary invoked: %r' % (what, can.FIRED[:2]))
    for mod, name in AUDIT['find_class']:
      if (mod, name) not in ALLOW:
        return ('global-looked-up', '%s: the stock find_class looked up %s.%s' % (what, mod, name))
    for mod in AUDIT['imports']:
      if mod in UNLOADED or any(mod == r[0] for r in hostile if r[0] not in ('copy_reg', '__builtin__')):
        if mod not in ('copy_reg', '__builtin__'):
          return ('module-imported', '%s: module %r was imported while unpickling' % (what, mod))
    if outcome[0] == 'returned':
      if not walk_plain(outcome[1]):
        return ('non-plain-result', '%s: loads() returned %r' % (what, outcome[1]))
      if hostile:
        return ('not-rejected', '%s: payload referencing %r was accepted, loads() returned %r' % (what, hostile, outcome[1]))
    else:
      e = outcome[1]
      if hostile and not isinstance(e, (self.pickle.UnpicklingError, ImportError)):
        # other exception classes for malformed programs are C11's business; a global reference outside
        # the allow-list must be *rejected as an invalid pickle*
        # (payloads that carry a second, unrelated malformation - an undecodable python2 string - may be
        # rejected for that reason first)
        if refs and all(r not in ALLOW for r in refs) and not what.startswith('call:BUILD') and 'undecodable' not in what:
          return ('wrong-rejection', '%s: rejected with %r instead of UnpicklingError' % (what, e))
    return None


def shard(arg):
  kind, items = arg
  probe = Probe()
  n = 0
  rejected = set()
  bad = []
  for it in items:
    if kind == 'pair':
      mod, name = it
      variants = [('GLOBAL/p0', pk.prog(pk.g_global(mod, name), 0)),
                  ('GLOBAL/p2', pk.prog(pk.g_global(mod, name), 2)),
                  ('STACK_GLOBAL/p4', pk.prog(pk.g_stack_global(mod, name), 4)),
                  ('STACK_GLOBAL/p5', pk.prog(pk.g_stack_global(mod, name), 5)),
                  ('GLOBAL in metric slot', pk.prog(nestings(pk.g_global(mod, name), 1)['metric@1'], 2)),
                  # a python2-style 8-bit string that is not valid UTF-8, popped again, before the global
                  ('GLOBAL after undecodable SHORT_BINSTRING', pk.prog(b'U\x02\xff\xfe0' + pk.g_global(mod, name), 2))]
      refs = [(mod, name)]
      for vname, payload in variants:
        n += 1
        v = probe.check(payload, refs, 'lookup:%s %s.%s' % (vname, mod, name), framed=(vname.endswith('slot')))
        if v is None:
          if (mod, name) not in ALLOW:
            rejected.add((vname, mod, name))
        elif len(bad) < 4:
          bad.append((v[0], v[1], {'payload_hex': payload.hex(), 'refs': refs, 'what': vname}))
    else:
      what, payload, refs = it
      n += 1
      v = probe.check(payload, refs, what)
      if v is None:
        rejected.add(what)
      elif len(bad) < 4:
        bad.append((v[0], v[1], {'payload_hex': payload.hex(), 'refs': refs, 'what': what}))
  return n, len(rejected), bad, probe.loads_calls


def structured_payloads():
  import copyreg
  from .. import canary  # noqa
  ext = {'fire': 0x71, 'Cls': 0x7172, 'fire4': 0x71727374}
  for name, code in (('fire', ext['fire']), ('Cls', ext['Cls'])):
    try:
      copyreg.add_extension('mc.canary', name, code)
    except ValueError:
      pass
  try:
    copyreg.add_extension('mc.canary', 'OldStyle', ext['fire4'])
  except ValueError:
    pass
  items = []
  targets = [('mc.canary', 'fire', 'Cls', 'OldStyle'), ('builtins', 'eval', 'object', 'object'),
             ('os', 'system', 'stat_result', 'stat_result'), ('copyreg', '_reconstructor', '_reconstructor', '_reconstructor')]
  for mod, func, cls, old in targets:
    routes = pk.call_routes(mod, func, cls, old, {'fire': ext['fire'], 'Cls': ext['Cls'], 'OldStyle': ext['fire4']}
                            if mod == 'mc.canary' else {})
    for rname, body in sorted(routes.items()):
      refs = [(mod, func), (mod, cls), (mod, old)] if not rname.startswith('EXT') else [('mc.canary', rname.split('/')[1])]
      for proto in (0, 2, 4):
        items.append(('call:%s/p%d -> %s' % (rname, proto, mod), pk.prog(body, proto), refs))
      for slot, nested in sorted(nestings(body).items()):
        items.append(('call:%s in %s -> %s' % (rname, slot, mod), pk.prog(nested, 2), refs))
  for mod, name in DANGEROUS:
    for g in (pk.g_global, pk.g_stack_global):
      for slot, nested in sorted(nestings(g(mod, name)).items()):
        items.append(('lookup:%s in %s %s.%s' % (g.__name__, slot, mod, name), pk.prog(nested, 2), [(mod, name)]))
  for mod, func, cls, old in targets[:2]:
    routes = pk.call_routes(mod, func, cls, old, {})
    for rname, body in sorted(routes.items()):
      for pre_name, pre in (('SHORT_BINSTRING', b'U\x02\xff\xfe0'), ('BINSTRING', b'T\x02\x00\x00\x00\xff\xfe0'),
                            ('STRING', b"S'\\xff\\xfe'\n0")):
        items.append(('call:%s after undecodable %s -> %s' % (rname, pre_name, mod), pk.prog(pre + body, 2),
                      [(mod, func), (mod, cls), (mod, old)]))
        items.append(('call:%s after undecodable %s in metric slot -> %s' % (rname, pre_name, mod),
                      pk.prog(pk.lst(pk.tup(pre + body, pk.tup(pk.i(1), pk.f(1.0)))), 2), [(mod, func), (mod, cls), (mod, old)]))
  for mod in UNLOADED:
    items.append(('lookup:GLOBAL unloaded module %s' % mod, pk.prog(pk.g_global(mod, 'x'), 2), [(mod, 'x')]))
  # benign control: plain data must come back as plain data
  items.append(('benign:datapoint list', pk.prog(pk.lst(pk.tup(pk.s('m'), pk.tup(pk.i(1), pk.f(1.5)))), 2), []))
  return items


def config_matrix(_):
  """USE_INSECURE_UNPICKLER as the daemons read it from carbon.conf ([program] and [program:instance] blocks):
  whenever the configuration says 'off' (or says nothing) the listeners must use the safe unpickler."""
  import os
  settings = env.boot()
  env.reset_state()
  install_hook()
  from carbon import conf
  d = os.path.join(env.scratch(), 'c13conf-%d' % os.getpid())
  os.makedirs(d, exist_ok=True)
  path = os.path.join(d, 'carbon.conf')
  bad = []
  n = 0
  hostile = [('REDUCE canary', pk.prog(pk.g_global('mc.canary', 'fire') + pk.tup(pk.i(1)) + b'R', 2), [('mc.canary', 'fire')]),
             ('GLOBAL os.system in metric slot', pk.prog(nestings(pk.g_global('os', 'system'), 1)['metric@1'], 2), [('os', 'system')])]
  saved = settings.get('USE_INSECURE_UNPICKLER')
  try:
    for program in ('carbon-cache', 'carbon-relay', 'carbon-aggregator'):
      section = program[len('carbon-'):]
      for base in (None, True, False):
        for inst_mode in ('no-instance', None, True, False):
          lines = ['[%s]' % section, 'USER =']
          if base is not None:
            lines.append('USE_INSECURE_UNPICKLER = %s' % base)
          instance = None
          if inst_mode != 'no-instance':
            instance = 'b'
            lines += ['', '[%s:b]' % section, 'LINE_RECEIVER_PORT = 2103']
            if inst_mode is not None:
              lines.append('USE_INSECURE_UNPICKLER = %s' % inst_mode)
          open(path, 'w').write('\n'.join(lines) + '\n')
          want = inst_mode if inst_mode in (True, False) else (base if base is not None else False)
          n += 1
          rep = {'config': lines, 'program': program, 'instance': instance}
          try:
            ps = conf.read_config(program, {'config': path, 'instance': instance, 'pidfile': None, 'logdir': None}, ROOT_DIR=d)
          except Exception as e:   # noqa
            bad.append(('config:exception', 'read_config(%s, instance=%r) raised %r for\n%s' % (program, instance, e, '\n'.join(lines)), rep))
            continue
          got = ps['USE_INSECURE_UNPICKLER']
          if bool(got) != bool(want):
            bad.append(('config:insecure-unpickler', '%s instance=%r reads USE_INSECURE_UNPICKLER=%r, the configuration says %r:\n%s' % (
              program, instance, got, want, '\n'.join(lines)), rep))
            continue
          if not want:
            settings['USE_INSECURE_UNPICKLER'] = got
            probe = Probe()
            settings['USE_INSECURE_UNPICKLER'] = got
            for what, payload, refs in hostile:
              v = probe.check(payload, refs, what + ' under ' + program)
              if v:
                bad.append((v[0], v[1], {'payload_hex': payload.hex(), 'refs': refs, 'what': what}))
  finally:
    settings['USE_INSECURE_UNPICKLER'] = saved
  return n, bad[:3]


def crash_points(_):
  """Connection set-up that fails half way: Twisted logs an exception raised by connectionMade() and keeps the accepted
  connection reading.  For every line of the connectionMade() methods (carbon/protocols.py) an exception is injected
  right before that line runs; hostile frames sent on that connection afterwards must still reach no global."""
  settings = env.boot()
  env.reset_state()
  install_hook()
  import carbon.protocols as P
  from twisted.internet.testing import StringTransport
  from .. import canary
  settings['USE_INSECURE_UNPICKLER'] = False
  src = P.__file__

  class Injected(Exception):
    pass

  def connect(cls, crash_at):
    """makeConnection under a tracer; returns (protocol, transport, number of connectionMade line events seen)."""
    seen = [0]

    def local(frame, event, arg):
      if event == 'line':
        seen[0] += 1
        if seen[0] == crash_at:
          raise Injected('injected before %s:%d' % (frame.f_code.co_name, frame.f_lineno))
      return local

    def glob(frame, event, arg):
      if event == 'call' and frame.f_code.co_filename == src and frame.f_code.co_name == 'connectionMade':
        return local
      return None
    proto = cls()
    tr = StringTransport()
    sys.settrace(glob)
    try:
      try:
        proto.makeConnection(tr)
      except Injected:
        pass
    finally:
      sys.settrace(None)
    return proto, tr, seen[0]

  hostile = []
  for rname, body in sorted(pk.call_routes('mc.canary', 'fire', 'Cls', 'OldStyle', {}).items()):
    if not rname.startswith('EXT'):
      hostile.append(('call:%s' % rname, pk.prog(body, 2)))
  hostile.append(('lookup:GLOBAL os.system', pk.prog(pk.g_global('os', 'system'), 2)))
  hostile.append(('lookup:STACK_GLOBAL in metric slot', pk.prog(nestings(pk.g_stack_global('subprocess', 'Popen'), 1)['metric@1'], 4)))
  bad = []
  n = 0
  points = 0
  for cls in (P.MetricPickleReceiver, P.CacheManagementHandler):
    _, _, total = connect(cls, 0)
    if total < 2:
      raise core.HarnessError('C13: connectionMade of %s was not traced' % cls.__name__)
    for k in range(1, total + 1):
      points += 1
      for what, payload in hostile:
        proto, tr, _ = connect(cls, k)
        del canary.FIRED[:]
        AUDIT['find_class'] = []
        AUDIT['imports'] = []
        AUDIT['on'] = True
        try:
          try:
            proto.dataReceived(pk.frame(payload))
          except BaseException:   # noqa - escaping exceptions are C11's business
            pass
        finally:
          AUDIT['on'] = False
        n += 1
        v = None
        if canary.FIRED:
          v = 'canary invoked: %r' % (canary.FIRED[:2],)
        else:
          for mod, name in AUDIT['find_class']:
            if (mod, name) not in ALLOW:
              v = 'the stock find_class looked up %s.%s' % (mod, name)
        if v and len(bad) < 3:
          bad.append(('connection-setup-fault', '%s.connectionMade() failed before its line event %d (Twisted keeps such a connection '
                      'open); a hostile frame (%s) on that connection: %s' % (cls.__name__, k, what, v),
                      {'crash_point': k, 'protocol': cls.__name__, 'payload_hex': payload.hex(), 'what': what}))
  return n, points, bad


def startup_matrix(_):
  """USE_INSECURE_UNPICKLER through the daemons' real start-up (postOptions on a generated carbon.conf, mc/daemonconf.py):
  the file says off / nothing; every environment variable the start-up consults whose name mentions the setting is then
  given the usual spellings of "off".  Whenever the configuration says off, the value the listeners test
  (settings.USE_INSECURE_UNPICKLER) must be false."""
  from .. import daemonconf
  bad = []
  n = 0
  # (the other daemons' sections of the same carbon.conf may say "on": every daemon reads its own section)
  others = {'carbon-cache': ('relay', 'aggregator'), 'carbon-relay': ('cache',), 'carbon-aggregator': ('cache', 'relay'),
            'carbon-aggregator-cache': ('cache', 'aggregator')}
  for program in ('carbon-cache', 'carbon-relay', 'carbon-aggregator', 'carbon-aggregator-cache'):
    for base in ({}, {'USE_INSECURE_UNPICKLER': 'False'}):
      extra = {'DESTINATIONS': '127.0.0.1:2004:a'} if program != 'carbon-cache' else {}
      try:
        r = daemonconf.effective(program, dict(base, **extra), keys=['USE_INSECURE_UNPICKLER'])
      except Exception as e:   # noqa
        bad.append(('config:exception', 'start-up of %s with %r failed: %s' % (program, base, str(e)[-300:]), {'startup': program}))
        continue
      n += 1
      if r['USE_INSECURE_UNPICKLER']:
        bad.append(('config:insecure-unpickler', '%s started with %r ends up with USE_INSECURE_UNPICKLER=%r' % (
          program, base, r['USE_INSECURE_UNPICKLER']), {'startup': program, 'base': base}))
      # ... and once the service tree is built (what the listeners will read), with the other sections saying "on"
      secs = {sec: {'USE_INSECURE_UNPICKLER': 'True'} for sec in others[program]}
      try:
        r3 = daemonconf.effective(program, dict(base, **extra), keys=['USE_INSECURE_UNPICKLER'], sections=secs, build_service=True)
      except Exception as e:   # noqa
        bad.append(('config:exception', 'building the service of %s with %r failed: %s' % (program, base, str(e)[-300:]), {'startup': program}))
        continue
      n += 1
      if r3['USE_INSECURE_UNPICKLER']:
        bad.append(('config:insecure-unpickler', '%s: its section says %r, the sections %r say USE_INSECURE_UNPICKLER = True; once the service '
                    'tree is built the listeners read USE_INSECURE_UNPICKLER=%r' % (program, base or 'nothing', sorted(secs), r3['USE_INSECURE_UNPICKLER']),
                    {'startup': program, 'base': base, 'sections': secs}))
      for var in r.get(daemonconf.ENV_KEY, []):
        if 'UNPICKLER' not in var.upper():
          continue
        for spelling in ('false', 'False', 'FALSE', 'no', 'off', '0'):
          n += 1
          r2 = daemonconf.effective(program, dict(base, **extra), keys=['USE_INSECURE_UNPICKLER'], environ={var: spelling})
          if r2['USE_INSECURE_UNPICKLER']:
            bad.append(('config:insecure-unpickler', '%s started with %s=%s in the environment (carbon.conf: %r) ends up with '
                        'settings.USE_INSECURE_UNPICKLER=%r, which the listeners treat as "on"' % (
                          program, var, spelling, base, r2['USE_INSECURE_UNPICKLER']),
                        {'startup': program, 'base': base, 'environ': {var: spelling}}))
            break
  return n, bad[:3]


def peers(_):
  """Who the peer is must not matter: the same hostile frames from loopback (IPv4, IPv6), a private and a public address, and
  over a UNIX socket (the peer address is whatever transport.getPeer() reports)."""
  settings = env.boot()
  env.reset_state()
  install_hook()
  import carbon.protocols as P
  from twisted.internet.testing import StringTransport
  from twisted.internet.address import IPv4Address, IPv6Address, UNIXAddress
  from .. import canary
  settings['USE_INSECURE_UNPICKLER'] = False
  hostile = []
  for rname, body in sorted(pk.call_routes('mc.canary', 'fire', 'Cls', 'OldStyle', {}).items()):
    if not rname.startswith('EXT'):
      hostile.append(('call:%s' % rname, pk.prog(body, 2)))
  hostile.append(('lookup:GLOBAL os.system', pk.prog(pk.g_global('os', 'system'), 2)))
  addrs = [IPv4Address('TCP', '127.0.0.1', 40000), IPv4Address('TCP', '127.8.9.1', 40000), IPv6Address('TCP', '::1', 40000),
           IPv4Address('TCP', '10.1.2.3', 40000), IPv4Address('TCP', '192.0.2.7', 40000), IPv6Address('TCP', 'fe80::1', 40000),
           IPv4Address('TCP', '0.0.0.0', 0)]
  bad = []
  n = 0
  for cls in (P.MetricPickleReceiver, P.CacheManagementHandler):
    for addr in addrs:
      for what, payload in hostile:
        proto = cls()
        tr = StringTransport(peerAddress=addr)
        try:
          proto.makeConnection(tr)
        except Exception as e:   # noqa
          bad.append(('peer:exception', '%s.connectionMade() raised %r for peer %r' % (cls.__name__, e, addr), {'peer': str(addr)}))
          break
        del canary.FIRED[:]
        AUDIT['find_class'] = []
        AUDIT['on'] = True
        try:
          try:
            proto.dataReceived(pk.frame(payload))
          except BaseException:   # noqa
            pass
        finally:
          AUDIT['on'] = False
        n += 1
        v = None
        if canary.FIRED:
          v = 'canary invoked: %r' % (canary.FIRED[:2],)
        else:
          for mod, name in AUDIT['find_class']:
            if (mod, name) not in ALLOW:
              v = 'the stock find_class looked up %s.%s' % (mod, name)
        if v and len(bad) < 3:
          bad.append(('peer-dependent', '%s from peer %s, hostile frame (%s): %s' % (cls.__name__, addr, what, v),
                      {'peer': str(addr), 'protocol': cls.__name__, 'payload_hex': payload.hex(), 'what': what}))
  return n, bad


def run(ctx):
  load_daemon_modules()
  install_hook()
  pn, pbad = core.pmap(peers, [0], fresh=True)[0]
  for key, what, rep in pbad:
    ctx.violation(key, what, rep)
  ctx.add(peer_address_cases=pn)
  sn, sbad = startup_matrix(0)
  for key, what, rep in sbad:
    ctx.violation(key, what, rep)
  ctx.add(startup_cases=sn)
  kn, kpoints, kbad = core.pmap(crash_points, [0], fresh=True)[0]
  for key, what, rep in kbad:
    ctx.violation(key, what, rep)
  ctx.add(connection_setup_crash_points=kpoints, connection_setup_cases=kn)
  cn, cbad = core.pmap(config_matrix, [0], fresh=True)[0]
  for key, what, rep in cbad:
    ctx.violation(key, what, rep)
  ctx.add(config_file_cases=cn)
  pairs = all_pairs()
  nmods = len(set(m for m, _ in pairs))
  pairs = core.seeded_order(pairs, ctx.seed)
  if not ctx.thorough:
    pass   # the sweep is cheap enough to be exhaustive in both tiers
  chunks = [pairs[i::64] for i in range(64)]
  items = structured_payloads()
  tasks = [('pair', c) for c in chunks] + [('prog', items[i::8]) for i in range(8)]
  res = core.pmap(shard, tasks, chunksize=1)
  n = rej = loads = 0
  for (kind, _), (cnt, r, bad, lc) in zip(tasks, res):
    n += cnt
    rej += r
    loads += lc
    for key, what, rep in bad:
      ctx.violation(key, what, rep)
  # the benign control and the vacuity obligations
  p = Probe()
  ok = p.loads(pk.prog(pk.lst(pk.tup(pk.s('m'), pk.tup(pk.i(1), pk.f(1.5)))), 2))
  if ok != [('m', (1, 1.5))]:
    raise core.HarnessError('C13: benign control pickle decoded to %r' % (ok,))
  import pickle as stock
  AUDIT['find_class'] = []
  AUDIT['on'] = True
  try:
    stock.loads(pk.prog(pk.g_global('os', 'getcwd'), 2))
  finally:
    AUDIT['on'] = False
  if not AUDIT['find_class']:
    raise core.HarnessError('C13: audit hook does not see the stock find_class - monitor is blind')
  ctx.add(evaluations=n, distinct_nontrivial=rej, exhaustive=True, modules=nmods, pairs=len(pairs),
          structured_payloads=len(items), loads_calls=loads,
          rule='every (module, attribute) pair of the %d loaded modules x {GLOBAL p0/p2, STACK_GLOBAL p4/p5, nested in the '
               'metric slot} + call routes x canaries x protocol framings x nestings; distinct_nontrivial = distinct '
               'payloads referencing a global outside the allow-list that were rejected with no lookup/import/call' % nmods)
  ctx.sample({'payload_hex': pk.prog(pk.g_global('os', 'system') + pk.tup(pk.s('id')) + b'R', 2).hex(),
              'what': 'REDUCE os.system'})
  ctx.sample({'payload_hex': items[0][1].hex(), 'what': items[0][0]})
  ctx.assumptions += ['allow-list pinned: copy_reg._reconstructor, __builtin__.object',
                      'audit events pickle.find_class / import are raised by CPython for the stock lookup path']


def replay(path):
  body = json.load(open(path))
  rep = body['replay']
  load_daemon_modules()
  install_hook()
  if 'config' in rep:
    n, bad = config_matrix(0)
    for key, what, _ in bad:
      print('oracle: [%s] %s' % (key, what))
    return 1 if bad else 0
  if 'peer' in rep:
    n, bad = peers(0)
    for key, what, _ in bad[:2]:
      print('oracle: [%s] %s' % (key, what))
    if not bad:
      print('oracle: holds')
    return 1 if bad else 0
  if 'startup' in rep:
    n, bad = startup_matrix(0)
    for key, what, _ in bad:
      print('oracle: [%s] %s' % (key, what))
    if not bad:
      print('oracle: holds')
    return 1 if bad else 0
  if 'crash_point' in rep:
    n, points, bad = crash_points(0)
    hit = [b for b in bad if b[2]['crash_point'] == rep['crash_point'] and b[2]['protocol'] == rep['protocol']] or bad
    for key, what, _ in hit[:1]:
      print('oracle: [%s] %s' % (key, what))
    if not hit:
      print('oracle: holds (%d crash points x hostile frames)' % points)
    return 1 if hit else 0
  p = Probe()
  payload = bytes.fromhex(rep['payload_hex'])
  v = p.check(payload, [tuple(r) for r in rep['refs']], rep['what'])
  print('payload:', payload)
  print('oracle:', v or 'holds')
  return 1 if v else 0
