"""C17 - every write strategy drains consistently, completely and without starvation."""
from .. import cacheh, cacheseq

LEVEL = 'model_checking'
MANIFEST = {
  'engine': 'thrx',
  'technique': 'stateless model checking of storer/drainer interleavings (iterative preemption bounding) + BFS '
               'over sequential histories with a pass-discipline monitor and a quiescent-drain probe in every state',
  'text': 'All six strategies, MIN_TIMESTAMP_LAG 0 and 5 on a virtual clock, bounded and unbounded cache: every '
          'interleaving with <=2 preemptions (thorough 3) of 3 stores against 3 drains, where the storer hits the '
          'metric the drainer has just chosen, must not raise, must not return an empty metric while others '
          'hold data, must respect max/bucketmax maximality and the lag at choice time, must respect the pass '
          'discipline of sorted/timesorted/naive, and from every final state (and every state of the '
          'sequential BFS to depth 6/8) repeated draining must hand out everything.',
  'note': 'A pass is defined observationally (DESIGN.md I5). Snapshots for the choice-time clauses are taken '
          'when the drainer has just acquired the cache lock. One series has the empty name; cache queries for uncached series race the drains; sub-second timestamps just short of the lag.',
}

STRATEGIES = ('sorted', 'max', 'naive', 'timesorted', 'bucketmax', 'random')
INIT = [('m', 1, -1.0), ('n', 1, -2.0), ('n', 2, -3.0)]
PROGRAMS = [
  # (the third series has the EMPTY name: the pickle listener accepts it - only isinstance(metric, str) is checked - and the
  # feeder stores it as received; a strategy's "nothing to hand out" sentinel must not be confused with it)
  [('store', 'n', 3, 1.0), ('store', 'm', 2, 2.0), ('store', '', 1, 3.0)],
  [('store', 'm', 2, 1.0), ('store', 'm', 3, 2.0), ('store', 'n', 3, 3.0)],
]


# graphite-web asks the cache query port about every series it renders, cached or not: a query for a series that holds
# nothing must leave the drain strategies nothing to trip over
QUERY_PROGRAM = [('query', 'zz'), ('store', 'm', 2, 1.0), ('bulk', ('yy', 'n')), ('store', 'n', 3, 3.0)]


def jobs(ctx):
  out = []
  for strat in STRATEGIES:
    fb = 1 if strat == 'random' else 0
    out.append(({'strategy': strat, 'lag': 0, 'max_cache': None, 'flow': False, 'init': INIT, 'reactor': QUERY_PROGRAM, 'writer': 3,
                 'oracles': ('c02', 'c17'), 'see_query': True}, (ctx.pick(1, 2), fb)))
    for lag in ((0, 5) if strat == 'timesorted' else (0,)):
      for mc in (None, 3):
        for pi, prog in enumerate(PROGRAMS):
          deep = ctx.pick(2 if (pi == 0 and mc is None) else 1, 3 if (pi == 0 and mc is None) else 2)
          init = [(m, (ts if not lag else ts), v) for m, ts, v in INIT]
          reactor = list(prog)
          if lag:
            reactor = [prog[0], ('advance', 6.0), prog[1], prog[2]]
          out.append(({'strategy': strat, 'lag': lag, 'max_cache': mc, 'flow': bool(mc), 'init': init,
                       'reactor': reactor, 'writer': 3, 'oracles': ('c02', 'c17'), 'see_query': False,
                       'fresh_ts': bool(lag)}, (deep, fb)))
    if ctx.thorough:
      out.append(({'strategy': strat, 'lag': 0, 'max_cache': None, 'init': INIT, 'reactor': PROGRAMS[0], 'writer': 2,
                   'oracles': ('c02', 'c17'), 'see_query': False,
                   'opcode': ('store', 'pop', 'drain_metric', 'choose_item')}, (1, fb)))
  return out


def run(ctx):
  cacheh.run_jobs(ctx, jobs(ctx), 'C17')
  cacheseq.run(ctx, oracles=('c02', 'c17'), depth=ctx.pick(6, 8), strategies=STRATEGIES,
               max_cache=[None, 2], flows=(True,), lags=(0, 5), metrics=('m', 'n', ''))
  ctx.add(bounds={'preemptions': ctx.pick(2, 3), 'sequential_depth': ctx.pick(6, 8), 'lag': [0, 5],
                  'max_cache': [None, 2, 3]})


def replay(path):
  import json
  body = json.load(open(path))
  if body['replay'].get('engine') == 'evx-cacheseq':
    return cacheseq.replay(body)
  return cacheh.replay_schedule(path)
