"""C16 - rule-based and aggregation-aware routing follow their rule files."""
import itertools
import json
import os
import re

from .. import core, env
from ..ref import aggrules

LEVEL = 'exploration'
MANIFEST = {
  'engine': 'enumx',
  'technique': 'bounded-exhaustive enumeration of generated relay-rules / aggregation-rules files x configured-destination '
               'subsets x metric names through the real routers, against evaluators written from the documented formats',
  'text': 'relay-rules: every ordered selection of 1..3 (thorough 4) pattern sections x continue absent/true/false x '
          'destination schemes (incl. an unconfigured destination) x default section at every position x optional '
          '"default = false" section x all subsets of 3 configured destinations x 7 names, parsed by loadRelayRules and '
          'routed by RelayRulesRouter; aggregation-aware: 1..3 rules from the aggregation pattern pool x 2..4 '
          'destinations x RF 1/2 x every name over {a,b,x,.} up to length 5 (6), through both aggregated routers; the '
          'reference matches patterns without regular expressions and hashes the aggregate names with the plain router.',
  'note': 'Plain hash routing itself is decided by C05/C06. Rule sets in which an input pattern uses regex metacharacters '
          'other than the documented ones are outside the pool. The relay\'s real start-up is asked which rules file each method is handed; destination lists in several spellings; rule pairs sharing an input pattern with the name memo on.',
}

DESTS = ['10.0.0.1:2004:a', '10.0.0.2:2004:b', '10.0.0.3:2004:c']
UNCONF = '10.0.0.9:2004:z'
PATTERNS = [r'^a\.', r'b', r'\.c$', r'.*']
NAMES = ['a.x', 'A.x', 'b', 'a.b', 'x.c', 'a.b.c', 'z']
DEST_SCHEMES = [
  lambda i: [DESTS[i % 3]],
  lambda i: [DESTS[(i + 1) % 3], UNCONF],
  lambda i: [DESTS[i % 3], DESTS[(i + 2) % 3]],
]


def triple(s):
  h, p, i = s.split(':')
  return (h, int(p), i)


class S(dict):
  __getattr__ = dict.__getitem__


def render_rules(sections):
  out = []
  for idx, sec in enumerate(sections):
    out.append('[s%d]' % idx)
    if 'pattern' in sec:
      out.append('pattern = %s' % sec['pattern'])
    if 'default' in sec:
      out.append('default = %s' % sec['default'])
    # the list separator as operators write it: ", " / "," / " , " / aligned with extra blanks (per section, deterministic)
    seps = (', ', ',', ' , ', ',   ')
    out.append('destinations = %s' % seps[(len(out) + len(sec['dests'])) % len(seps)].join(sec['dests']))
    if sec.get('continue') is not None:
      out.append('continue = %s' % sec['continue'])
    out.append('')
  return '\n'.join(out) + '\n'


def ref_relay(sections, configured, metric):
  rules = []
  default = None
  for sec in sections:
    if 'pattern' in sec:
      rules.append((sec['pattern'], sec['dests'], sec.get('continue') == 'true'))
    elif sec.get('default') == 'true':
      default = sec['dests']
  out = set()
  matched_stop = False
  for pat, dests, cont in rules:
    if re.search(pat, metric, re.I):
      out |= set(triple(d) for d in dests if triple(d) in configured)
      if not cont:
        matched_stop = True
        break
  if not matched_stop:
    out |= set(triple(d) for d in default if triple(d) in configured)
  return out


def relay_files(ctx):
  kmax = ctx.pick(3, 4)
  files = []
  for k in range(1, kmax + 1):
    for pats in itertools.permutations(range(len(PATTERNS)), k):
      for conts in itertools.product([None, 'true', 'false'], repeat=k):
        for scheme in range(len(DEST_SCHEMES)):
          if k == kmax and scheme and not ctx.thorough:
            continue
          secs = [{'pattern': PATTERNS[p], 'dests': DEST_SCHEMES[scheme](p + j), 'continue': c}
                  for j, (p, c) in enumerate(zip(pats, conts))]
          for dpos in range(k + 1):
            if dpos not in (0, k) and (scheme or not ctx.thorough) and k > 2:
              continue
            s2 = list(secs)
            s2.insert(dpos, {'default': 'true', 'dests': [DESTS[(scheme + 2) % 3], UNCONF]})
            files.append(s2)
            if scheme == 0 and dpos == k:
              s3 = list(s2)
              s3.insert(0, {'default': 'false', 'dests': [DESTS[0]]})
              files.append(s3)
  return files


def relay_shard(arg):
  files, subsets = arg
  env.boot()
  from carbon.routers import RelayRulesRouter
  path = os.path.join(env.scratch(), 'relay-rules-%d.conf' % os.getpid())
  n = 0
  ok = set()
  bad = []
  for secs in files:
    with open(path, 'w') as f:
      f.write(render_rules(secs))
    s = S({'relay-rules': path})
    for subset in subsets:
      router = RelayRulesRouter(s)
      conf = set()
      for d in subset:
        router.addDestination(triple(d))
        conf.add(triple(d))
      for name in NAMES:
        n += 1
        got = list(router.getDestinations(name))
        want = ref_relay(secs, conf, name)
        rep = {'sections': secs, 'configured': list(subset), 'metric': name}
        if any(d not in conf for d in got):
          if len(bad) < 3:
            bad.append(('unconfigured', 'metric %r routed to unconfigured %r' % (name, [d for d in got if d not in conf]), rep))
        elif set(got) != want:
          if len(bad) < 3:
            bad.append(('relay-rules', 'metric %r routed to %r, rule file says %r\n%s' % (name, sorted(set(got)), sorted(want), render_rules(secs)), rep))
        else:
          ok.add((render_rules(secs), tuple(subset), name))
  return n, len(ok), bad


# ---- aggregation-aware hashing --------------------------------------------------------------------------------------
AGG_RULES = [
  ('<env>.all.x', '<env>.*.x', 'sum'),
  ('agg.<f>', 'a.<f>', 'sum'),
  ('tot.b', '*.b', 'avg'),
  ('m.<g>', '<<g>>.b', 'max'),
  ('p.<f>q', 'a<f>b.*', 'min'),
  ('lit.out', 'a.b', 'count'),
  ('pre.<f>', 'x*.<f>', 'sum'),
  ('cnt.<f>', 'a.<f>', 'count'),       # same input pattern as 'agg.<f>', another aggregate (a sum/count pair)
]
AGG_DESTS = [('10.0.0.1', 2004, 'a'), ('10.0.0.2', 2004, 'b'), ('10.0.0.1', 2104, 'c'), ('10.0.0.3', 2004, 'd')]
AGG_ALPHABET = 'abx.'


def agg_shard(arg):
  rulesets, maxlen = arg[:2]
  name_cache = arg[2] if len(arg) > 2 else (0, 0)
  env.boot()
  from carbon.routers import DatapointRouter
  from carbon.aggregator.rules import RuleManager
  from carbon.conf import settings as real
  from twisted.internet.task import Clock
  path = os.path.join(env.scratch(), 'aggregation-rules-%d.conf' % os.getpid())
  names = [''.join(t) for k in range(1, maxlen + 1) for t in itertools.product(AGG_ALPHABET, repeat=k)]
  n = 0
  ok = set()
  bad = []
  tick = [2000000000]
  real['CACHE_METRIC_NAMES_MAX'], real['CACHE_METRIC_NAMES_TTL'] = name_cache
  for rules in rulesets:
    with open(path, 'w') as f:
      f.write('# generated\n\n')
      for out, inp, method in rules:
        f.write('%s (10) = %s %s\n' % (out, method, inp))
    tick[0] += 10
    os.utime(path, (tick[0], tick[0]))
    for cls in ('aggregated-consistent-hashing', 'fast-aggregated-hashing'):
      for ndest in (2, 3, 4):
        for rf in (1, 2):
          if RuleManager.read_task.running:
            RuleManager.read_task.stop()
          RuleManager.read_task.clock = Clock()
          RuleManager.rules_last_read = 0.0
          s = S(real)
          s['REPLICATION_FACTOR'] = rf
          s['DIVERSE_REPLICAS'] = False
          s['ROUTER_HASH_TYPE'] = 'carbon_ch'
          s['aggregation-rules'] = path
          router = DatapointRouter.plugins[cls](s)
          s2 = S(s)
          plain = DatapointRouter.plugins['consistent-hashing' if cls.startswith('agg') else 'fast-hashing'](s2)
          for d in AGG_DESTS[:ndest]:
            router.addDestination(d)
            plain.addDestination(d)
          if len(RuleManager.rules) != len(rules):
            raise core.HarnessError('RuleManager loaded %d rules, file has %d' % (len(RuleManager.rules), len(rules)))
          for name in names:
            n += 1
            aggs = []
            for out, inp, method in rules:
              a = aggrules.aggregate_name(inp, out, name)
              if a is not None:
                aggs.append(a)
            want = set()
            for a in (aggs or [name]):
              want |= set(plain.getDestinations(a))
            got = set(router.getDestinations(name))
            if got != want:
              if len(bad) < 3:
                bad.append(('aggregated-routing', '%s: metric %r routed to %r; the rules map it to aggregates %r whose hash '
                            'destinations are %r | rules %r dests=%d rf=%d name cache (max, ttl)=%r' % (
                              cls, name, sorted(got), aggs, sorted(want), rules, ndest, rf, name_cache),
                            {'rules': rules, 'metric': name, 'cls': cls, 'ndest': ndest, 'rf': rf, 'name_cache': list(name_cache)}))
            elif aggs:
              ok.add((tuple(rules), cls, ndest, rf, name))
  if RuleManager.read_task.running:
    RuleManager.read_task.stop()
  RuleManager.rules = []
  real['CACHE_METRIC_NAMES_MAX'], real['CACHE_METRIC_NAMES_TTL'] = 0, 0
  return n, len(ok), bad


def agg_longlived(arg):
  """One long-lived aggregated router while the rules file is rewritten, removed and restored (the
  RuleManager's periodic read_rules() tick is called by hand): routing must follow the rules in force."""
  sequence, cls, maxlen = arg[:3]
  epoch = arg[3] if len(arg) > 3 else 2100000000.0
  env.boot()
  from carbon.routers import DatapointRouter
  from carbon.aggregator.rules import RuleManager
  from carbon.conf import settings as real
  from twisted.internet.task import Clock
  path = os.path.join(env.scratch(), 'aggregation-rules-ll-%d.conf' % os.getpid())
  names = [''.join(t) for k in range(1, maxlen + 1) for t in itertools.product(AGG_ALPHABET, repeat=k)]
  tick = [epoch]       # file times long before and long after the wall clock: only their ORDER may matter

  def write(rules):
    if rules is None:
      if os.path.exists(path):
        os.unlink(path)
      return
    with open(path, 'w') as f:
      for out, inp, method in rules:
        f.write('%s (10) = %s %s\n' % (out, method, inp))
    tick[0] += 7.5
    os.utime(path, ns=(int(tick[0] * 1e9), int(tick[0] * 1e9)))
  if RuleManager.read_task.running:
    RuleManager.read_task.stop()
  RuleManager.read_task.clock = Clock()
  RuleManager.rules_last_read = 0.0
  write(sequence[0])
  s = S(real)
  s['REPLICATION_FACTOR'] = 1
  s['DIVERSE_REPLICAS'] = False
  s['ROUTER_HASH_TYPE'] = 'carbon_ch'
  s['aggregation-rules'] = path
  router = DatapointRouter.plugins[cls](s)
  plain = DatapointRouter.plugins['consistent-hashing' if cls.startswith('agg') else 'fast-hashing'](S(s))
  for d in AGG_DESTS:
    router.addDestination(d)
    plain.addDestination(d)
  n = 0
  okc = 0
  bad = []
  for step, rules in enumerate(sequence):
    if step:
      write(rules)
      RuleManager.read_rules()          # the 10 s re-read tick
    for name in names:
      n += 1
      aggs = [a for a in (aggrules.aggregate_name(inp, out, name) for out, inp, m in (rules or [])) if a is not None]
      want = set()
      for a in (aggs or [name]):
        want |= set(plain.getDestinations(a))
      got = set(router.getDestinations(name))
      if got != want:
        if len(bad) < 3:
          bad.append(('aggregated-routing:after-rules-change', '%s (long-lived router, step %d of %r): metric %r routed to %r; the rules in '
                      'force map it to aggregates %r whose hash destinations are %r' % (cls, step, sequence, name, sorted(got), aggs, sorted(want)),
                      {'sequence': sequence, 'metric': name, 'cls': cls, 'step': step, 'epoch': epoch}))
      elif aggs or step:
        okc += 1
  if RuleManager.read_task.running:
    RuleManager.read_task.stop()
  RuleManager.rules = []
  write(None)
  return n, okc, bad


def startup_rules_files():
  """Through the relay daemon's real start-up (CarbonRelayOptions.postOptions on a generated carbon.conf): each relay method
  must be handed the rules file of its kind from the default location CONF_DIR (aggregation-rules.conf for the
  aggregation-aware methods, relay-rules.conf for rule-based relaying)."""
  from .. import daemonconf
  bad = []
  n = 0
  for method, key, fname in (('aggregated-consistent-hashing', 'aggregation-rules', 'aggregation-rules.conf'),
                             ('fast-aggregated-hashing', 'aggregation-rules', 'aggregation-rules.conf'),
                             ('rules', 'relay-rules', 'relay-rules.conf')):
    n += 1
    try:
      r = daemonconf.effective('carbon-relay', {'RELAY_METHOD': method, 'DESTINATIONS': '127.0.0.1:2004:a'}, keys=[key, 'RELAY_METHOD'])
    except Exception as e:   # noqa
      bad.append(('startup:exception', 'carbon-relay start-up with RELAY_METHOD=%s failed: %s' % (method, str(e)[-300:]), {'startup': method}))
      continue
    v = r.get(key)
    if not isinstance(v, str) or not v.endswith('/conf/' + fname):
      bad.append(('startup:rules-file', 'carbon-relay started with RELAY_METHOD=%s (rules in the default CONF_DIR/%s): settings[%r] is %r, so the '
                  'router loads no rules and routes every metric by its own name' % (method, fname, key, v), {'startup': method}))
  return n, bad


def run(ctx):
  env.boot()
  sn, sbad = startup_rules_files()
  for key, what, rep in sbad:
    ctx.violation(key, what, rep)
  ctx.add(startup_cases=sn)
  files = core.seeded_order(relay_files(ctx), ctx.seed)
  subsets = [c for k in range(0, 4) for c in itertools.combinations(DESTS, k)]
  if not ctx.thorough:
    subsets = [s for s in subsets if len(s) in (0, 2, 3)] + [(DESTS[1],)]
  nsh = 48
  res = core.pmap(relay_shard, [(files[i::nsh], subsets) for i in range(nsh)], chunksize=1)
  n = d = 0
  for cnt, okc, bad in res:
    n += cnt
    d += okc
    for key, what, rep in bad:
      ctx.violation(key, what, rep)
  kr = ctx.pick(2, 3)
  rulesets = [list(c) for k in range(1, kr + 1) for c in itertools.permutations(AGG_RULES, k)]
  if not ctx.thorough:
    rulesets = [r for r in rulesets if len(r) == 1] + [r for i, r in enumerate(rulesets) if len(r) == 2 and i % 2 == 0]
    rulesets += [[AGG_RULES[1], AGG_RULES[7]], [AGG_RULES[7], AGG_RULES[1]]]     # the pair sharing an input pattern, both orders
  rulesets = core.seeded_order(rulesets, ctx.seed)
  # the per-rule name memo (CACHE_METRIC_NAMES_MAX / _TTL) off, LRU and TTL
  caches = [(0, 0), (100, 0), (2, 0), (100, 60)] if ctx.thorough else [(0, 0), (100, 0)]
  res = core.pmap(agg_shard, [(rulesets[i::nsh], ctx.pick(5, 6), nc) for nc in caches for i in range(nsh)], chunksize=1)
  n2 = d2 = 0
  for cnt, okc, bad in res:
    n2 += cnt
    d2 += okc
    for key, what, rep in bad:
      ctx.violation(key, what, rep)
  seqs = []
  for a in AGG_RULES:
    for b in AGG_RULES:
      if a is not b:
        seqs.append([[a], [b], None, [a]])           # rewrite, remove, restore
        seqs.append([[a], None, [a, b], [b]])
  if not ctx.thorough:
    seqs = seqs[::4]
  lres = core.pmap(agg_longlived, [(sq, cls, 4, ep) for sq in seqs for cls in ('aggregated-consistent-hashing', 'fast-aggregated-hashing')
                                     for ep in (1000000000.0, 2100000000.0)], chunksize=2)
  for cnt, okc, bad in lres:
    n2 += cnt
    d2 += okc
    for key, what, rep in bad:
      ctx.violation(key, what, rep)
  ctx.add(evaluations=n + n2, distinct_nontrivial=d + d2, exhaustive=True, long_lived_router_sequences=len(seqs), relay_rule_files=len(files),
          configured_subsets=len(subsets), aggregation_rule_sets=len(rulesets),
          rule='relay-rules: generated files x configured subsets x 7 names; aggregation-aware: rule sets x 2 router classes x '
               '2..4 destinations x RF 1,2 x all names over "abx." up to length %d; distinct_nontrivial = distinct passing cases '
               '(for aggregation-aware routing only names that some rule maps to an aggregate)' % ctx.pick(5, 6))
  ctx.sample({'relay_rules': render_rules(files[0]), 'configured': list(subsets[-1]), 'metric': 'a.b',
              'expected': sorted(ref_relay(files[0], set(triple(x) for x in subsets[-1]), 'a.b'))})
  ctx.sample({'aggregation_rule': AGG_RULES[0], 'metric': 'a.b.x', 'aggregate': aggrules.aggregate_name(AGG_RULES[0][1], AGG_RULES[0][0], 'a.b.x')})
  if not d2:
    raise core.HarnessError('C16: no name was mapped to an aggregate')


def replay(path):
  body = json.load(open(path))
  rep = body['replay']
  if 'startup' in rep:
    n, bad = startup_rules_files()
    for key, what, _ in bad:
      print('oracle: [%s] %s' % (key, what))
    if not bad:
      print('oracle: holds')
    return 1 if bad else 0
  if 'sequence' in rep:
    seq = [None if r is None else [tuple(x) for x in r] for r in rep['sequence']]
    n, ok, bad = agg_longlived((seq, rep['cls'], 4, rep.get('epoch', 2100000000.0)))
  elif 'sections' in rep:
    n, ok, bad = relay_shard(([rep['sections']], [tuple(rep['configured'])]))
  else:
    n, ok, bad = agg_shard(([[tuple(r) for r in rep['rules']]], 6, tuple(rep.get('name_cache', (0, 0)))))
  for key, what, _ in bad:
    print('oracle: [%s] %s' % (key, what))
  if not bad:
    print('oracle: holds')
  return 1 if bad else 0
