"""C15 - what a relay's client encodes is what the next daemon's listener decodes."""
import json
import math
import struct

from .. import core, env, relayh, wire

LEVEL = 'exploration'
MANIFEST = {
  'engine': 'enumx',
  'technique': 'bounded-exhaustive enumeration over the double domain (every biased exponent x mantissa corners x sign, '
               'decimal boundaries, ties), integer and timestamp boundaries, names, and all queue length x message size '
               'splits, through the real client factory/protocol on the fake reactor into the real listener protocol',
  'text': 'Datapoints are queued on the real CarbonClientFactory (pickle and line), transmitted by the real '
          'sendQueued()/takeSomeFromQueue() with MAX_DATAPOINTS_PER_MESSAGE 1..4 (and 500 for the value sweep), and the '
          'bytes written to the fake transport are fed - whole and with every single cut for the small cases - into the '
          'real MetricPickleReceiver / MetricLineReceiver. Pickle: name, timestamp and value identical (sign of zero '
          'included). Line: name identical, timestamp truncated to whole seconds, |delta value| <= max(5e-11, 1 ulp). '
          'The decoded sequence must equal the queued sequence for every queue length 0..7 and every message size.',
  'note': 'protobuf client/listener not covered (library absent). NaN values are excluded (filtered by the listener). Also: messages of up to 0.56 MB; an exception out of the sending client is a violation.',
}

NAMES = ['a.b', 'x=1;y', 'é.ü', '日.本', '😀.z', 'a' * 200]
TIMESTAMPS = [0, 1, 2 ** 31 - 1, 2 ** 31, 2 ** 32 - 1, 1.5e9 + 0.999, 1700000000]


def doubles():
  out = []
  mants = [0, 1, 2 ** 51, 2 ** 52 - 1, 0x5555555555555, 0xAAAAAAAAAAAAA, 2 ** 26]
  for sign in (0, 1):
    for e in range(0, 2047):
      for m in mants:
        bits = (sign << 63) | (e << 52) | m
        out.append(struct.unpack('>d', struct.pack('>Q', bits))[0])
    out.append(struct.unpack('>d', struct.pack('>Q', (sign << 63) | (2047 << 52)))[0])   # +-inf
  for e in range(-12, 309):
    for k in (1, 2, 5, 9):
      try:
        x = float('%de%d' % (k, e))
      except OverflowError:
        continue
      if math.isinf(x):
        continue
      for y in (x, math.nextafter(x, math.inf), math.nextafter(x, -math.inf)):
        if not math.isinf(y):
          out.append(y)
          out.append(-y)
  # ties at the 10th decimal
  for k in range(0, 40):
    out.append(k * 1e-10 + 5e-11)
    out.append(1.0 + k * 1e-10 + 5e-11)
    out.append(-(123456.0 + k * 1e-10 + 5e-11))
  return out


INTS = [0, 1, -1, 2 ** 31, -2 ** 31, 2 ** 53, -2 ** 53]
LINE_ONLY_INTS = [2 ** 63 - 1, 10 ** 18, -10 ** 18]


def ulp(x):
  if math.isinf(x) or x == 0:
    return 0.0
  return abs(math.nextafter(x, math.inf) - x)


class Link(object):
  """One client factory connected on the fake reactor; returns the bytes it writes for a queue."""

  def __init__(self, protocol, batch):
    self.protocol = protocol
    self.relay = relayh.Relay({'max_queue': 10 ** 6, 'batch': batch, 'flow': True, 'dynamic': False,
                               'protocol': protocol, 'ndest': 1, 'metrics': ('m',)})

  def transmit(self, datapoints, arm=0):
    """arm=n: the n-th write fills the socket buffer (the transport pauses the producer in the middle of the
    burst); the producer is resumed once everything that can be sent has been sent."""
    r = self.relay
    r.reset()
    v = r.apply(('conn_ok', 0))
    if v:
      raise core.HarnessError('link set-up failed: %r' % (v,))
    d = r.dests[0]
    t = r.transport(d)
    t.pause_after = arm
    try:
      for name, ts, value in datapoints:
        # routed by the generated rules: names not starting with m/n go to the default rule = this destination
        r.cm.sendDatapoint(name, (ts, value))
      for _ in range(10000):
        if not r.reactor.clock.getDelayedCalls():
          if t.producer is not None and getattr(t.producer, 'paused', False):
            t.producer.resumeProducing()
            continue
          break
        calls = r.reactor.clock.getDelayedCalls()
        nxt = min(c.getTime() for c in calls)
        r.reactor.clock.advance(max(0.0, nxt - r.reactor.clock.seconds()))
    except Exception as e:   # noqa
      # the sending side raised (in the daemon: out of a timed call, logged by the reactor; the batch in hand is gone)
      data = b''.join(t.written)
      del t.written[:]
      return data, 'the client raised %r while sending' % (e,)
    data = b''.join(t.written)
    del t.written[:]
    left = len(r.factory(d).queue)
    return data, left


def check_batch(kind, sent, got, where):
  """Returns (key, what) or None."""
  if len(got) != len(sent):
    return ('sequence', '%s: %d datapoints queued, %d decoded (%r ... %r)' % (where, len(sent), len(got), sent[:2], got[:2]))
  for i, ((sn, st, sv), (gn, gt, gv)) in enumerate(zip(sent, got)):
    if gn != sn:
      return ('name', '%s: name %r arrived as %r' % (where, sn, gn))
    if kind == 'pickle':
      if gt != st:
        return ('timestamp:pickle', '%s: timestamp %r arrived as %r' % (where, st, gt))
      if not (gv == sv and math.copysign(1.0, gv) == math.copysign(1.0, float(sv))):
        return ('value:pickle', '%s: value %r arrived as %r' % (where, sv, gv))
    else:
      if gt != int(st):
        return ('timestamp:line', '%s: timestamp %r arrived as %r (expected %r)' % (where, st, gt, int(st)))
      if math.isinf(float(sv)) or math.isinf(gv):
        if float(sv) != gv:
          return ('value:line', '%s: value %r arrived as %r' % (where, sv, gv))
        continue
      # a correctly rounded '%.10f' is within 5e-11 of the value; parsing that decimal back adds at most half
      # an ulp, so the honest bound of a correct round trip is the sum, not the maximum, of the two terms
      tol = 5e-11 + ulp(float(sv))
      if not abs(gv - float(sv)) <= tol:
        return ('value:line', '%s: value %r arrived as %r (delta %r > %r)' % (where, sv, gv, abs(gv - float(sv)), tol))
  return None


def receive(kind, data, cut=None):
  rig = wire.Rig(kind)
  if cut is None:
    exc = rig.feed(data)
  else:
    exc = rig.feed(data[:cut]) or rig.feed(data[cut:])
  got = list(rig.delivered)
  closing = rig.closing
  rig.close()
  return got, exc, closing


def value_shard(arg):
  kind, values, idx = arg
  link = Link(kind, 500)
  n = 0
  bad = []
  okc = 0
  CH = 500
  for off in range(0, len(values), CH):
    chunk = values[off:off + CH]
    sent = [(NAMES[(off + i) % 3], TIMESTAMPS[(off + i) % len(TIMESTAMPS)], v) for i, v in enumerate(chunk)]
    data, left = link.transmit(sent)
    got, exc, closing = receive(kind, data)
    n += len(sent)
    where = '%s link, values chunk %d' % (kind, off)
    if exc is not None or closing or left:
      bad.append(('transport', '%s: exception %r closing %r left in queue %s' % (where, exc, closing, left), {'kind': kind, 'sent': sent[:3]}))
      continue
    v = check_batch(kind, sent, got, where)
    if v:
      # narrow down to the single datapoint
      for dp in sent:
        d1, _ = link.transmit([dp])
        g1, e1, _c = receive(kind, d1)
        v1 = check_batch(kind, [dp], g1, '%s link' % kind)
        if v1 or e1:
          bad.append((v1[0] if v1 else 'transport', (v1[1] if v1 else repr(e1)), {'kind': kind, 'sent': [dp], 'wire_hex': d1.hex()}))
          break
      else:
        bad.append((v[0], v[1], {'kind': kind, 'sent': sent[:3]}))
      if len(bad) >= 3:
        break
    else:
      okc += len(sent)
  return n, okc, bad


def repeat_shard(arg):
  """The same metric-name objects are queued again and again over ONE connection (what a relay does
  interval after interval): every message must stand on its own."""
  kind, batch = arg
  link = Link(kind, batch)
  r = link.relay
  r.reset()
  v = r.apply(('conn_ok', 0))
  d = r.dests[0]
  t = r.transport(d)
  names = [NAMES[0], NAMES[1], NAMES[2]]
  sent = []
  data = b''
  for interval in range(4):
    for i, nme in enumerate(names):
      dp = (nme, 1700000000 + 60 * interval, float(interval * 10 + i))
      sent.append(dp)
      r.cm.sendDatapoint(nme, (dp[1], dp[2]))
    for _ in range(1000):
      calls = r.reactor.clock.getDelayedCalls()
      if not calls:
        break
      r.reactor.clock.advance(max(0.0, min(c.getTime() for c in calls) - r.reactor.clock.seconds()))
    data += b''.join(t.written)
    del t.written[:]
  got, exc, closing = receive(kind, data)
  bad = []
  where = '%s link, 4 intervals of the same 3 series over one connection, MAX_DATAPOINTS_PER_MESSAGE=%d' % (kind, batch)
  if exc is not None or closing:
    bad.append(('transport', '%s: exception %r closing %r' % (where, exc, closing), {'kind': kind, 'sent': sent[:3], 'batch': batch}))
  else:
    vv = check_batch(kind, sent, got, where)
    if vv:
      bad.append((vv[0], vv[1], {'kind': kind, 'sent': sent, 'batch': batch}))
  return len(sent), 0 if bad else len(sent), bad


def split_shard(arg):
  kind, batch = arg
  link = Link(kind, batch)
  n = 0
  okc = 0
  bad = []
  pool = [(NAMES[i % len(NAMES)], TIMESTAMPS[i % len(TIMESTAMPS)], [1.5, -0.0, 2 ** 53, 1e-12, math.inf, 7, 0.1][i % 7]) for i in range(7)]
  for qlen, arm in [(q, a) for q in range(0, 8) for a in (0, 1, 2, 3)]:
    sent = pool[:qlen]
    data, left = link.transmit(sent, arm)
    cuts = [None] + (list(range(1, len(data))) if not arm else [])
    for cut in cuts:
      got, exc, closing = receive(kind, data, cut)
      n += 1
      where = '%s link, queue of %d, MAX_DATAPOINTS_PER_MESSAGE=%d, cut %r%s' % (
        kind, qlen, batch, cut, ', transport pauses after write %d' % arm if arm else '')
      if exc is not None or closing or left:
        bad.append(('transport', '%s: exception %r closing %r left %s' % (where, exc, closing, left), {'kind': kind, 'sent': sent, 'batch': batch}))
        break
      v = check_batch(kind, sent, got, where)
      if v:
        bad.append((v[0], v[1], {'kind': kind, 'sent': sent, 'batch': batch, 'cut': cut, 'wire_hex': data.hex()}))
        break
      okc += 1
    # message sizes
    try:
      msgs = relayh.decode_pickle_stream(data)[0] if kind == 'pickle' else None
    except relayh.Undecodable as e:
      bad.append(('undecodable-message', '%s link, queue of %d: %s' % (kind, qlen, e), {'kind': kind, 'sent': sent, 'batch': batch}))
      msgs = None
    if msgs is not None:
      sizes = [len(m) for m in msgs]
      if any(s > batch for s in sizes) or sum(sizes) != qlen:
        bad.append(('sequence', '%s link: queue of %d sent as messages of %r (MAX_DATAPOINTS_PER_MESSAGE=%d)' % (kind, qlen, sizes, batch),
                    {'kind': kind, 'sent': sent, 'batch': batch}))
  return n, okc, bad[:3]


def large_shard(arg):
  """Large messages: many long names in one MAX_DATAPOINTS_PER_MESSAGE batch (up to ~0.6 MB per message, below the
  listener's 1 MiB frame limit) must arrive complete and in order like any other batch."""
  kind, batch, count, namelen = arg
  link = Link(kind, batch)
  sent = [('L%d.' % i + 'y' * namelen, 1000 + i, float(i)) for i in range(count)]
  data, left = link.transmit(sent)
  got, exc, closing = receive(kind, data, None)
  where = '%s link, %d datapoints with %d-character names, MAX_DATAPOINTS_PER_MESSAGE=%d (%d bytes on the wire)' % (
    kind, count, namelen, batch, len(data))
  rep = {'kind': kind, 'batch': batch, 'large': [count, namelen]}
  if exc is not None or closing or left:
    return 1, 0, [('transport', '%s: exception %r closing %r left %s' % (where, exc, closing, left), rep)]
  if len(got) != len(sent):
    missing = sorted(set(x[0].split('.')[0] for x in sent) - set(g[0].split('.')[0] for g in got))
    return 1, 0, [('sequence', '%s: %d datapoints queued, %d ingested; missing %r' % (where, len(sent), len(got), missing[:5]), rep)]
  short = [(n.split('.')[0] + '.<%d>' % (len(n)), t, v) for n, t, v in sent]
  gshort = [(n.split('.')[0] + '.<%d>' % (len(n)), t, v) for n, t, v in got]
  v = check_batch(kind, short, gshort, where)
  if v:
    return 1, 0, [(v[0], v[1], rep)]
  return 1, 1, []


def run(ctx):
  env.boot()
  ltasks = [('pickle', 500, 9, 70000), ('pickle', 5, 9, 70000), ('pickle', 500, 600, 1100), ('line', 500, 600, 1100),
            ('pickle', 500, 501, 1100)]
  for cnt, ok, bad in core.pmap(large_shard, ltasks, fresh=True):
    for key, what, rep in bad:
      ctx.violation(key, what, rep)
  ctx.add(large_message_cases=len(ltasks))
  vals = doubles()
  if not ctx.thorough:
    vals = vals[::3] + vals[-400:]
  tasks = []
  nsh = 16
  for kind in ('pickle', 'line'):
    allv = list(vals) + INTS + (LINE_ONLY_INTS if kind == 'line' else [])
    for i in range(nsh):
      tasks.append((kind, allv[i::nsh], i))
  res = core.pmap(value_shard, tasks, fresh=True)
  n = okc = 0
  for cnt, ok, bad in res:
    n += cnt
    okc += ok
    for key, what, rep in bad:
      ctx.violation(key, what, rep)
  stasks = [(kind, b) for kind in ('pickle', 'line') for b in (1, 2, 3, 4)]
  sres = core.pmap(split_shard, stasks, fresh=True)
  n2 = ok2 = 0
  for cnt, ok, bad in sres:
    n2 += cnt
    ok2 += ok
    for key, what, rep in bad:
      ctx.violation(key, what, rep)
  rres = core.pmap(repeat_shard, [(kind, b) for kind in ('pickle', 'line') for b in (1, 2, 5)], fresh=True)
  for cnt, ok, bad in rres:
    n2 += cnt
    ok2 += ok
    for key, what, rep in bad:
      ctx.violation(key, what, rep)
  ctx.add(evaluations=n + n2, distinct_nontrivial=okc + ok2, exhaustive=True, doubles=len(vals), split_cases=n2,
          rule='doubles: sign x every biased exponent 0..2046 x 7 mantissa corners, +-inf, k*10^e +- 1 ulp for e in -12..308, '
               'ties at the 10th decimal%s; integers; 7 timestamps; 6 names; queue lengths 0..7 x message sizes 1..4 x every '
               'single cut of the wire bytes; distinct_nontrivial = datapoints / split cases that round-tripped within the '
               'stated tolerance' % ('' if ctx.thorough else ' (every third double in the quick tier)'))
  ctx.sample({'kind': 'line', 'datapoint': ['a.b', 1500000000.999, 1e-12], 'expected': ['a.b', 1500000000, 'within 5e-11 of 1e-12']})
  ctx.sample({'kind': 'pickle', 'datapoint': ['é.ü', 4294967295, -0.0]})


def replay(path):
  body = json.load(open(path))
  rep = body['replay']
  kind = rep['kind']
  if rep.get('large'):
    n, ok, bad = large_shard((kind, rep['batch'], rep['large'][0], rep['large'][1]))
    for key, what, _ in bad:
      print('oracle: [%s] %s' % (key, what))
    if not bad:
      print('oracle: holds')
    return 1 if bad else 0
  sent = [(s[0], s[1], float(s[2]) if isinstance(s[2], str) else s[2]) for s in rep['sent']]
  link = Link(kind, rep.get('batch', 500))
  data, left = link.transmit(sent)
  got, exc, closing = receive(kind, data, rep.get('cut'))
  print('sent:', sent)
  print('wire:', data[:200])
  print('decoded:', got, 'exception:', exc)
  v = check_batch(kind, sent, got, kind)
  print('oracle:', v or 'holds')
  return 1 if v or exc else 0
