"""C14 - no metric name can place a file outside the data directory."""
import itertools
import json
import os
import shutil

from .. import core, env

LEVEL = 'exploration'
MANIFEST = {
  'engine': 'enumx',
  'technique': 'bounded-exhaustive enumeration of every string over a 10-letter alphabet incl. whitespace (up to length 6 / 7) through '
               'the real path functions, plus real create() of every string up to length 4 in a scratch tree',
  'text': 'Every string over {a b . / ; = ~ _ e-acute space} up to length 6 (thorough 7) is mapped by '
          'WhisperDatabase.getFilesystemPath and CeresDatabase.getFilesystemPath (both TAG_HASH_FILENAMES values); '
          'normpath must lie strictly under the data directory and two calls must agree. Injectivity is checked on the '
          'sub-domain of untagged names with non-empty dot-separated segments and no separator (up to length 6). '
          'Every string up to length 4 (thorough 5) is really created/written through the plugin and the scratch tree is '
          'walked: nothing may exist outside the data directory (realpath).',
  'note': 'whisper and ceres are absent: minimal stand-in modules (mc/doubles/standins) let carbon.database define '
          'its classes; CeresTree.getFilesystemPath is reproduced from ceres. Strings outside the alphabet are not '
          'covered. Injectivity is also checked on structured long names (segments of 64..5000 characters around NAME_MAX/PATH_MAX). The data directory goes through the real start-up (LOCAL_DATA_DIR with ~ etc.); a thrx harness asks one database object for paths from two threads. Mutating calls that would leave the scratch tree are refused by the recording audit hook (and reported).',
}

ALPHABET = ['a', 'b', '.', '/', ';', '=', '~', '_', 'é', ' ']


class S(dict):
  __getattr__ = dict.__getitem__


def make_dbs(data_dir):
  env.boot(standins=True)
  import carbon.database as dbm
  from carbon.conf import settings as real
  out = []
  for hashed in (True, False):
    s = S(real)
    s['LOCAL_DATA_DIR'] = data_dir
    s['TAG_HASH_FILENAMES'] = hashed
    out.append(('whisper', hashed, dbm.WhisperDatabase(s)))
    out.append(('ceres', hashed, dbm.CeresDatabase(s)))
  return out


def in_domain(name):
  """untagged, non-empty dot-separated segments, no path separator"""
  if not name or ';' in name or '/' in name:
    return False
  return all(seg for seg in name.split('.'))


def confined(path, data_dir):
  # "inside the data directory": the directory itself (ceres node path of an empty name) does not escape
  n = os.path.normpath(path)
  return n == data_dir or n.startswith(data_dir + os.sep)


def shard(arg):
  prefix, maxlen, data_dir, want_pairs = arg
  dbs = make_dbs(data_dir)
  n = 0
  nontrivial = 0
  bad = []
  pairs = {}
  for extra in range(0, maxlen - len(prefix) + 1):
    for tail in itertools.product(ALPHABET, repeat=extra):
      name = prefix + ''.join(tail)
      special = ('/' in name) or ('..' in name) or name.startswith('.') or (';' in name)
      for kind, hashed, db in dbs:
        n += 1
        try:
          p1 = db.getFilesystemPath(name)
          p2 = db.getFilesystemPath(name)
        except Exception as e:   # noqa
          if len(bad) < 3:
            bad.append(('exception', '%s getFilesystemPath(%r) raised %r' % (kind, name, e), {'name': name, 'kind': kind, 'hashed': hashed}))
          continue
        if p1 != p2:
          if len(bad) < 3:
            bad.append(('nondeterministic', '%s path of %r: %r then %r' % (kind, name, p1, p2), {'name': name, 'kind': kind, 'hashed': hashed}))
        if not confined(p1, data_dir):
          if len(bad) < 3:
            bad.append(('escape:' + kind, '%s path of %r is %r (normalised %r), outside %r' % (
              kind, name, p1, os.path.normpath(p1), data_dir), {'name': name, 'kind': kind, 'hashed': hashed}))
        elif special:
          nontrivial += 1
        if want_pairs and in_domain(name) and len(name) <= want_pairs:
          pairs[(kind, hashed, name)] = os.path.normpath(p1)
    if len(prefix) == 0:
      break
  return n, nontrivial, bad, pairs


SEGMENTS = ['..', '.', '', 'a', ' ', '~', '\u2025', 'a.b']
PREFIXES = ['', 'a;x=', ';', 'a;', 'a.b;x=', ' ', '/', '\uff0f']


def shard_structured(arg):
  """Path-shaped names: prefix + up to 6 segments joined by '/' (dot segments deep enough to climb out of
  _tagged/xxx/yyy/ are far longer than the exhaustive string bound)."""
  prefix, depth, data_dir = arg
  dbs = make_dbs(data_dir)
  n = nontrivial = 0
  bad = []
  deep = ['..', 'a', '.']
  seqs = [segs for k in range(1, min(depth, 3) + 1) for segs in itertools.product(SEGMENTS, repeat=k)]
  seqs += [segs for k in range(1, depth + 5) for segs in itertools.product(deep, repeat=k)]
  for _once in (1,):
    for segs in seqs:
      for sepc in ('/', '\uff0f'):
        name = prefix + sepc.join(segs)
        for kind, hashed, db in dbs:
          n += 1
          try:
            p1 = db.getFilesystemPath(name)
          except Exception as e:   # noqa
            if len(bad) < 3:
              bad.append(('exception', '%s getFilesystemPath(%r) raised %r' % (kind, name, e), {'name': name, 'kind': kind, 'hashed': hashed}))
            continue
          if not confined(p1, data_dir):
            if len(bad) < 3:
              bad.append(('escape:' + kind, '%s path of %r is %r (normalised %r), outside %r' % (
                kind, name, p1, os.path.normpath(p1), data_dir), {'name': name, 'kind': kind, 'hashed': hashed}))
          else:
            nontrivial += 1
  return n, nontrivial, bad, {}


TOUCHED = {'on': False, 'paths': []}
_hooked = []


def _jail_break(pth):
  """The path lies outside the check's own scratch tree: the operation is recorded (and reported) but must not really
  happen - a tree that breaks the property would otherwise leave files all over the machine."""
  jail = TOUCHED.get('jail')
  if not jail:
    return False
  if isinstance(pth, bytes):
    pth = pth.decode('utf-8', 'replace')
  rp = os.path.realpath(pth if os.path.isabs(pth) else os.path.join(os.getcwd(), pth))
  return rp != jail and not rp.startswith(jail + os.sep)


def _audit(event, args):
  if not TOUCHED['on']:
    return
  _record(event, args)
  if TOUCHED.get('jail'):
    if event == 'open' and args and isinstance(args[0], (str, bytes)):
      mode, flags = (args[1] if len(args) > 1 else None), (args[2] if len(args) > 2 else 0)
      writing = (isinstance(mode, str) and any(c in mode for c in 'wax+')) or (
        isinstance(flags, int) and flags & (os.O_WRONLY | os.O_RDWR | os.O_CREAT))
      if writing and _jail_break(args[0]):
        raise PermissionError('verif: %r is outside the scratch tree' % (args[0],))
    elif event in ('os.mkdir', 'os.remove', 'os.rmdir', 'os.chmod', 'os.chown', 'os.truncate', 'os.utime'):
      if args and isinstance(args[0], (str, bytes)) and _jail_break(args[0]):
        raise PermissionError('verif: %s(%r) is outside the scratch tree' % (event, args[0]))
    elif event in ('os.rename', 'os.link', 'os.symlink'):
      for a in args[:2]:
        if isinstance(a, (str, bytes)) and _jail_break(a):
          raise PermissionError('verif: %s(%r) is outside the scratch tree' % (event, a))


def _record(event, args):
  if event in ('open', 'os.mkdir', 'os.remove', 'os.rmdir', 'os.chmod', 'os.chown', 'os.truncate', 'os.utime'):
    if args and isinstance(args[0], (str, bytes)):
      TOUCHED['paths'].append((event, args[0]))
  elif event in ('os.rename', 'os.link', 'os.symlink'):
    for a in args[:2]:
      if isinstance(a, (str, bytes)):
        TOUCHED['paths'].append((event, a))


def install_monitors():
  """Every path the backend hands to the OS (open/mkdir/rename/... via audit events, exists() via a wrapper
  around the name carbon.database imported) is recorded while TOUCHED['on']."""
  import sys
  if not _hooked:
    sys.addaudithook(_audit)
    _hooked.append(1)
  import carbon.database as dbm
  if not getattr(dbm.exists, '_verif', False):
    real = dbm.exists

    def exists(path):
      if TOUCHED['on']:
        TOUCHED['paths'].append(('exists', path))
      return real(path)
    exists._verif = True
    dbm.exists = exists


def create_all(arg):
  """Really create every string up to `maxlen` through the plugin; nothing may appear outside data/, and no
  path outside it may even be probed, opened, created or renamed."""
  kind, hashed, maxlen = arg
  root = os.path.join(env.scratch(), 'c14-%s-%s' % (kind, hashed))
  outer = os.path.join(root, 'outer')
  data_dir = os.path.join(outer, 'data')
  shutil.rmtree(root, ignore_errors=True)
  os.makedirs(data_dir)
  sentinel = os.path.join(root, 'sentinel')
  open(sentinel, 'w').close()
  db = [d for k, h, d in make_dbs(data_dir) if k == kind and h == hashed][0]
  install_monitors()
  created = errors = 0
  bad = []
  real_data0 = os.path.realpath(data_dir)
  names = [''.join(tup) for ln in range(0, maxlen + 1) for tup in itertools.product(ALPHABET, repeat=ln)]
  names += [pre + '/'.join(segs) for pre in ('/a;x=', '/;', '/a.b;t=v', 'a;x=/') for k in (1, 2) for segs in itertools.product(['..', 'a', 'tmp'], repeat=k)]
  for name in names:
      del TOUCHED['paths'][:]
      TOUCHED['jail'] = os.path.realpath(root)
      TOUCHED['on'] = True
      try:
        if not db.exists(name):
          db.create(name, [(60, 10)], 0.5, 'average')
        db.write(name, [(1, 1.0)])
        created += 1
      except (OSError, Exception):   # noqa - file/dir clashes inside data/ are fine, escapes are caught by the walk
        errors += 1
      finally:
        TOUCHED['on'] = False
      for event, pth in TOUCHED['paths']:
        if isinstance(pth, bytes):
          pth = pth.decode('utf-8', 'replace')
        rp = os.path.realpath(pth if os.path.isabs(pth) else os.path.join(os.getcwd(), pth))
        if rp != real_data0 and not rp.startswith(real_data0 + os.sep):
          if len(bad) < 3:
            bad.append(('touches-outside:' + kind, '%s backend, metric %r: %s(%r) is outside the data directory %r' % (
              kind, name, event, pth, real_data0), {'kind': kind, 'hashed': hashed, 'name': name}))
  real_data = os.path.realpath(data_dir)
  for dirpath, dirnames, filenames in os.walk(root):
    for f in filenames + dirnames:
      p = os.path.realpath(os.path.join(dirpath, f))
      if p in (os.path.realpath(outer), real_data, os.path.realpath(sentinel)):
        continue
      if not p.startswith(real_data + os.sep):
        bad.append(('escape-created:' + kind, '%s backend created %r outside the data directory %r' % (kind, p, real_data),
                    {'kind': kind, 'hashed': hashed, 'path': p}))
        break
    if bad:
      break
  shutil.rmtree(root, ignore_errors=True)
  return created, errors, bad


def run(ctx):
  env.boot(standins=True)
  data_dir = os.path.join(env.scratch(), 'c14', 'outer', 'data')
  os.makedirs(data_dir, exist_ok=True)
  maxlen = ctx.pick(6, 7)
  plen = 2
  prefixes = [''] + [''.join(t) for k in range(1, plen + 1) for t in itertools.product(ALPHABET, repeat=k)]
  # '' handles the empty string only; prefixes of length 1 handle themselves only; length-2 prefixes everything longer
  args = []
  for pre in prefixes:
    if len(pre) < plen:
      args.append((pre, len(pre), data_dir, 6))
    else:
      args.append((pre, maxlen, data_dir, 6))
  args = core.seeded_order(args, ctx.seed)
  res = core.pmap(shard, args, chunksize=1)
  res += core.pmap(shard_structured, [(pre, ctx.pick(4, 5), data_dir) for pre in PREFIXES], chunksize=1)
  args = args + [(pre, 0, 0, 0) for pre in PREFIXES]
  evals = nontrivial = 0
  allpairs = {}
  for (pre, _, _, _), (n, nt, bad, pairs) in zip(args, res):
    evals += n
    nontrivial += nt
    for key, what, rep in bad:
      ctx.violation(key, what, rep)
    allpairs.update(pairs)
  # injectivity on the stated sub-domain
  inv = {}
  for (kind, hashed, name), path in allpairs.items():
    k = (kind, hashed, path)
    if k in inv and inv[k] != name:
      ctx.violation('collision:' + kind, '%s maps distinct names %r and %r to %r' % (kind, inv[k], name, path),
                    {'name': name, 'other': inv[k], 'kind': kind, 'hashed': hashed})
    inv[k] = name
  # ... and on LONG segments: names around every length at which a filesystem limit (NAME_MAX 255, PATH_MAX 4096) could
  # tempt the mapping into shortening; neighbours differ only in their last character or in one middle character
  long_names = []
  for L in (64, 200, 230, 234, 238, 240, 250, 251, 252, 254, 255, 256, 260, 300, 1000, 4090, 5000):
    for shape in ('%s', 'p.%s', '%s.q', 'p.%s.q'):
      base = 'a' * L
      for seg in (base, base[:-1] + 'b', base[:-1] + 'c', base[:L // 2] + 'z' + base[L // 2 + 1:], base + 'a'):
        long_names.append(shape % seg)
  long_names = sorted(set(long_names))
  ldbs = make_dbs(data_dir)
  linv = {}
  for kind, hashed, db in ldbs:
    for name in long_names:
      try:
        pth = db.getFilesystemPath(name)
        again = db.getFilesystemPath(name)
      except Exception as e:   # noqa
        ctx.violation('exception:' + kind, '%s getFilesystemPath(<%d-char name>) raised %r' % (kind, len(name), e),
                      {'name': name, 'kind': kind, 'hashed': hashed})
        break
      evals += 1
      if pth != again:
        ctx.violation('nondeterministic:' + kind, '%s maps %r... to two different paths' % (kind, name[:20]), {'name': name, 'kind': kind})
      if not confined(pth, data_dir):
        ctx.violation('escape:' + kind, '%s maps a %d-char name outside the data directory: %r' % (kind, len(name), pth[:80]),
                      {'name': name, 'kind': kind, 'hashed': hashed})
      k = (kind, hashed, pth)
      if k in linv and linv[k] != name:
        a, b = linv[k], name
        ctx.violation('collision:' + kind, '%s maps two distinct untagged names of %d and %d characters (first difference at index %d) '
                      'to the same path ...%r' % (kind, len(a), len(b), next((i for i, (x, y) in enumerate(zip(a, b)) if x != y), min(len(a), len(b))),
                                                pth[-40:]), {'name': b, 'other': a, 'kind': kind, 'hashed': hashed})
        break
      linv[k] = name
  ctx.add(long_segment_names=len(long_names))
  sn, sbad = startup_data_dir()
  for key, what, rep in sbad:
    ctx.violation(key, what, rep)
  ctx.add(startup_data_dir_spellings=sn)
  rjobs = [({'kind': k, 'hashed': h, 'names': names}, (ctx.pick(2, 3), 0)) for k in ('whisper', 'ceres') for h in (True, False)
           for names in (('servers.web01.cpu', 'servers.web02.cpu'), ('a.b;k=v', 'a.b;k=w'))]
  rexec = 0
  for (p_, b_), st in zip(rjobs, core.pmap(path_race_job, rjobs, fresh=True)):
    rexec += st['executions']
    for key, what, rep in st['violations']:
      ctx.violation(key, what, {'race': p_, 'choices': rep['choices'], 'kind': p_['kind']})
  ctx.add(path_race_executions=rexec)
  cres = core.pmap(create_all, [(k, h, ctx.pick(4, 5)) for k in ('whisper', 'ceres') for h in (True, False)])
  created = 0
  for c, e, bad in cres:
    created += c
    for key, what, rep in bad:
      ctx.violation(key, what, rep)
  ctx.add(evaluations=evals, distinct_nontrivial=nontrivial, exhaustive=True, max_length=maxlen,
          injectivity_domain_names=len(allpairs), really_created=created,
          rule='every string over %r up to length %d x {whisper, ceres} x TAG_HASH_FILENAMES on/off; non-trivial = '
               'confined names containing "/", "..", a leading "." or ";" (the ones that could escape)' % (''.join(ALPHABET), maxlen))
  dbs = make_dbs(data_dir)
  for name in ('a/../../b', '.a', '/a;b=/../x', 'a.b;~=é'):
    ctx.sample({'name': name, 'paths': {'%s/%s' % (k, h): d.getFilesystemPath(name) for k, h, d in dbs}})
  ctx.assumptions += ['whisper/ceres stand-ins; CeresTree.getFilesystemPath = join(root, nodePath.replace(".", os.sep))']
  if not nontrivial:
    raise core.HarnessError('C14: no potentially escaping name was evaluated')


# ---- the mapping is a function also under concurrency -------------------------------------------------------------------
class PathRace(object):
  """state.database is used by the writer thread (exists / create / write) and by the reactor thread (the cache query
  port's get-metadata / set-metadata): two threads ask one database object for the paths of different series, each twice.
  Every answer must be the path the series has when asked alone (deterministic mapping, distinct names - distinct paths)."""
  horizon = 3000
  opcode_funcs = ()

  def __init__(self, p):
    self.p = p

  def visible(self):
    lib = os.path.join(env.REPO, 'lib', 'carbon')
    return {os.path.join(lib, 'database.py'): None}

  def setup(self, s):
    env.boot(standins=True)
    data_dir = os.path.join(env.scratch(), 'c14race', 'data')
    os.makedirs(data_dir, exist_ok=True)
    kind, hashed = self.p['kind'], self.p['hashed']
    self.db = [d for k, h, d in make_dbs(data_dir) if k == kind and h == hashed][0]
    ref = [d for k, h, d in make_dbs(data_dir) if k == kind and h == hashed][0]
    self.want = {}
    for name in self.p['names']:
      self.want[name] = ref.getFilesystemPath(name)
      ref = [d for k, h, d in make_dbs(data_dir) if k == kind and h == hashed][0]     # a fresh object per name: no history
    self.answers = []
    self.exc = []
    self.sched = s
    a, b = self.p['names']
    s.spawn('writer', lambda: self.body(a, b))
    s.spawn('reactor', lambda: self.body(b, a))

  def teardown(self, s):
    pass

  def body(self, first, second):
    for name in (first, first, second):
      self.sched.point(('op', 'path', name[:8]))
      try:
        self.answers.append((name, self.db.getFilesystemPath(name)))
      except Exception as e:   # noqa
        self.exc.append(repr(e))

  def outcome(self, s):
    return (tuple(sorted(self.answers)), tuple(self.exc))

  def obligations(self, s):
    return {}

  def verdict(self, s):
    if self.exc:
      return ('exception:%s' % self.p['kind'], 'getFilesystemPath raised %s' % self.exc[0])
    for name, got in self.answers:
      if got != self.want[name]:
        return ('nondeterministic:%s' % self.p['kind'], '%s: %r was mapped to %r while another thread asked about %r; asked alone it maps to %r' % (
          self.p['kind'], name, got, [n for n in self.p['names'] if n != name][0], self.want[name]))
    return None


def make_path_race(p):
  return PathRace(p)


def path_race_job(arg):
  from .. import thrx
  p, bounds = arg
  env.boot(standins=True)
  return thrx.explore(make_path_race, p, bounds, fanout=10 ** 9)


def startup_data_dir():
  """The data directory the database plugin is confined to must be the one the daemon's start-up settles on: LOCAL_DATA_DIR
  spelled with '~', relative segments or doubled separators goes through the real postOptions(), and the directory the
  database object saw when it was built is compared with the normalised setting."""
  from .. import daemonconf
  bad = []
  n = 0
  home = os.path.expanduser('~')
  for spelling in ('~/graphite/whisper', '/srv//graphite/./whisper/', '/srv/graphite/tmp/../whisper', '/srv/graphite/whisper'):
    n += 1
    want = os.path.normpath(os.path.expanduser(spelling))
    try:
      r = daemonconf.effective('carbon-cache', {'LOCAL_DATA_DIR': spelling}, keys=['LOCAL_DATA_DIR'])
    except Exception as e:   # noqa
      bad.append(('startup:exception', 'carbon-cache start-up with LOCAL_DATA_DIR = %s failed: %s' % (spelling, str(e)[-300:]), {'startup': spelling}))
      continue
    got, seen = r.get('LOCAL_DATA_DIR'), r.get(daemonconf.DB_DIR_KEY)
    if got != want:
      bad.append(('startup:data-dir', 'LOCAL_DATA_DIR = %s is settled as %r, expected %r (home %r)' % (spelling, got, want, home), {'startup': spelling}))
    elif seen != got:
      bad.append(('escape:startup', 'LOCAL_DATA_DIR = %s: the daemon settles on %r, but the database object was built with %r - every '
                  'file it creates lies outside the configured data directory' % (spelling, got, seen), {'startup': spelling}))
  # an explicitly configured data directory stays where carbon.conf puts it, whatever a [cache:<instance>] section says
  # about the storage root
  # ({ROOT} = the scratch directory of that start-up: the start-up creates PID_DIR below the storage root)
  explicit = '{ROOT}/graphite/storage/whisper'
  for over in ({'STORAGE_DIR': '{ROOT}/graphite/storage-b'}, {'STORAGE_DIR': '{ROOT}/graphite/storage-b', 'LOCAL_DATA_DIR': explicit},
               {'LOG_DIR': '{ROOT}/graphite/storage-b/log'}):
    n += 1
    base = {'STORAGE_DIR': '{ROOT}/graphite/storage', 'LOCAL_DATA_DIR': explicit}
    try:
      r = daemonconf.effective('carbon-cache', base, over, 'b', keys=['LOCAL_DATA_DIR'])
    except Exception as e:   # noqa
      bad.append(('startup:exception', 'carbon-cache --instance b start-up with [cache] %r [cache:b] %r failed: %s' % (base, over, str(e)[-300:]),
                  {'startup': 'instance'}))
      continue
    got, seen = r.get('LOCAL_DATA_DIR'), r.get(daemonconf.DB_DIR_KEY)
    if got != explicit or seen != explicit:
      bad.append(('escape:startup', '[cache] LOCAL_DATA_DIR = %s, [cache:b] %r: instance b settles on %r and builds its database with %r - '
                  'every file lies outside the configured data directory' % (explicit, over, got, seen), {'startup': 'instance'}))
  return n, bad


def replay(path):
  body = json.load(open(path))
  rep = body['replay']
  env.boot(standins=True)
  if 'startup' in rep:
    n, bad = startup_data_dir()
    for key, what, _ in bad:
      print('oracle: [%s] %s' % (key, what))
    if not bad:
      print('oracle: holds')
    return 1 if bad else 0
  if 'race' in rep:
    from .. import thrx
    rep['race']['names'] = tuple(rep['race']['names'])
    sch, h = thrx.run_one(make_path_race, rep['race'], rep['choices'])
    v = h.verdict(sch)
    print('answers:', h.answers)
    print('oracle:', v or 'holds')
    return 1 if v else 0
  data_dir = os.path.join(env.scratch(), 'c14', 'outer', 'data')
  os.makedirs(data_dir, exist_ok=True)
  bad = 0
  for kind, hashed, db in make_dbs(data_dir):
    if kind != rep.get('kind', kind):
      continue
    if 'name' in rep:
      p = db.getFilesystemPath(rep['name'])
      ok = confined(p, data_dir)
      print('%s hashed=%s %r -> %r %s' % (kind, hashed, rep['name'][:60], p[-80:], 'confined' if ok else 'ESCAPES'))
      bad += 0 if ok else 1
      if 'other' in rep and rep.get('hashed', hashed) == hashed:
        q = db.getFilesystemPath(rep['other'])
        same = p == q
        print('   other name %r -> %r %s' % (rep['other'][:60], q[-80:], 'SAME PATH' if same else 'distinct'))
        bad += 1 if same else 0
  return 1 if bad else 0
