"""C18 - tagged series names normalise to one canonical form."""
import itertools
import json

from .. import core, env

LEVEL = 'exploration'
MANIFEST = {
  'engine': 'enumx',
  'technique': 'bounded-exhaustive enumeration of series strings (all strings over a reserved-character alphabet up to '
               'length 4/5) and of structured (name, tag set) pairs in all tag permutations and both syntaxes, through '
               'TaggedSeries.parse, CacheFeedingProcessor.process and RelayProcessor.process',
  'text': 'norm(x) is observed at three real entry points (parse().path, the key under which the cache stores, the name '
          'the relay forwards with TAG_RELAY_NORMALIZED) and they must agree. For every tag set of up to 3 (thorough 4) '
          'tags from pools containing every reserved character, all permutations in carbon syntax and (where '
          'expressible) OpenMetrics syntax must give one norm; norm must be idempotent on every enumerated string; '
          'tag sets violating the tag rules must be rejected in both syntaxes and stored/relayed byte-identical.',
  'note': 'OpenMetrics renderings are only produced for tag sets OpenMetrics can express (identifier-like label names, '
          'metric names without braces/quotes/semicolons). The reference acceptance rule is written from the tag '
          'rules in the statement, not from the parser. Also: OpenMetrics token sequences with ill-formed pairs, names of 400-5000 characters, case-only tag pairs.',
}

PROHIBITED_TAG_CHARS = ';!^='


def well_formed(name, tags):
  """The tag rules, written from the documentation (not from carbon)."""
  if not name or not name.lstrip('~'):
    return False
  if ';' in name:
    return False
  for k, v in tags:
    if not k or not v:
      return False
    if any(c in k for c in PROHIBITED_TAG_CHARS):
      return False
    if ';' in v or v[0] == '~':
      return False
  return True


def tokenize_carbon(x):
  """The documented carbon syntax: name;tag=value;...  Returns (name, [(tag, value)]) or None."""
  segs = x.split(';')
  tags = []
  for seg in segs[1:]:
    if '=' not in seg:
      return None
    k, v = seg.split('=', 1)
    tags.append((k, v))
  return segs[0], tags


def wf_carbon(x):
  t = tokenize_carbon(x)
  if t is None:
    return False
  name, tags = t
  if len(set(k for k, _ in tags)) != len(tags):
    return None          # duplicate keys: which one wins is not specified - not judged
  return well_formed(name, tags)


def render_carbon(name, tags):
  return name + ''.join(';%s=%s' % (k, v) for k, v in tags)


def om_expressible(name, tags):
  import re
  if not re.match(r'^[A-Za-z_:.~][A-Za-z0-9_:.~]*$', name or ''):
    return False
  return all(re.match(r'^[A-Za-z_][A-Za-z0-9_]*$', k or '') and v != '' for k, v in tags)


def render_om(name, tags):
  def esc(v):
    return v.replace('\\', '\\\\').replace('"', '\\"')
  return name + '{' + ','.join('%s="%s"' % (k, esc(v)) for k, v in tags) + '}'


class Norm(object):
  def __init__(self):
    env.boot()
    env.reset_state()
    from carbon.conf import settings
    import carbon.cache
    import carbon.client
    from carbon import state
    from carbon.util import TaggedSeries
    self.TS = TaggedSeries
    settings['TAG_RELAY_NORMALIZED'] = True
    settings['CACHE_WRITE_STRATEGY'] = 'naive'
    settings['MAX_CACHE_SIZE'] = float('inf')
    env.apply_daemon_cache_limits(settings)
    self.proc = carbon.cache.CacheFeedingProcessor()
    self.cache = self.proc.cache
    self.sent = []

    class CM(object):
      def sendDatapoint(cm, metric, datapoint):
        self.sent.append(metric)
    state.client_manager = CM()
    self.relay = carbon.client.RelayProcessor()

  def parse(self, x):
    try:
      return (True, self.TS.parse(x).path)
    except Exception:   # noqa - "rejected by the parser"
      return (False, x)

  def stored(self, x):
    self.cache.clear()
    self.cache.size = 0
    self.proc.process(x, (1, 1.0))
    keys = list(dict.keys(self.cache))
    return keys[0] if len(keys) == 1 else keys

  def relayed(self, x):
    del self.sent[:]
    self.relay.process(x, (1, 1.0))
    return self.sent[0] if len(self.sent) == 1 else list(self.sent)

  def norm(self, x):
    """norm as observed at the three entry points; returns (accepted, norm, disagreement or None)."""
    acc, n = self.parse(x)
    s = self.stored(x)
    r = self.relayed(x)
    if s != n or r != n:
      return acc, n, 'parse gives %r, cache stores under %r, relay forwards %r' % (n, s, r)
    return acc, n, None


def classify(x):
  """Cause key for a counterexample string: is the OpenMetrics-detection heuristic involved (a carbon
  path with tags that ends in '"}' and contains a '{')?"""
  if x[-2:] == '"}' and '{' in x and ';' in x:
    return 'syntax-heuristic'
  return 'other'


# ---- (A) all strings: idempotence + entry-point agreement -------------------------------------------------
STR_ALPHABET = ['a', '~', ';', '=', '{', '}', '"', '\\', ',', '!']


def shard_strings(arg):
  prefix, maxlen = arg
  N = Norm()
  n = 0
  nontrivial = 0
  bad = []
  for extra in range(0, maxlen - len(prefix) + 1):
    for tail in itertools.product(STR_ALPHABET, repeat=extra):
      x = prefix + ''.join(tail)
      if not x:
        continue
      n += 1
      acc, nx, dis = N.norm(x)
      if dis:
        if len(bad) < 3:
          bad.append(('entry-points-disagree', 'for %r: %s' % (x, dis), {'string': x}))
        continue
      acc2, nnx, _ = N.norm(nx)
      if nnx != nx:
        if len(bad) < 3:
          bad.append(('idempotence:' + classify(x), 'norm(%r) = %r but norm of that = %r' % (x, nx, nnx), {'string': x}))
      elif acc and nx != x:
        nontrivial += 1
      if not acc and nx != x:
        if len(bad) < 3:
          bad.append(('rejected-but-altered', '%r rejected by the parser but handled as %r' % (x, nx), {'string': x}))
    if not prefix:
      break
  return n, nontrivial, bad


# ---- (B) structured tag sets ----------------------------------------------------------------------------------
NAMES = ['m', 'a.b', '~m', 'm{', 'n}', 'x"}', '', '~']
KEYS = ['k', 'K', 'k2', 'z', 'a{', 'b}', 'c"', 'd\\', 'e,', 'f~', '~g', '', 'x;y', 'x!y', 'x^y', 'x=y', '!k', '^k']
VALUES = ['v', 'é', '1', 'y"}', '{', 'p=q', 'a,b', 'b\\s', 'q"', '}', '1{t="w"}', '', '~v', 'a;b']


def tagsets(max_tags, thorough):
  keys = KEYS if thorough else KEYS[:11] + ['', 'x;y', 'x=y', 'x!y', 'x^y']
  vals = VALUES if thorough else VALUES[:9] + ['1{t="w"}', '', '~v', 'a;b']
  out = []
  for nt in range(1, max_tags + 1):
    for ks in itertools.combinations(keys, nt):
      # values: a covering assignment instead of the full product - every (key, value) pair and every
      # ordered value pair occurs in some tag set
      for shift in range(len(vals)):
        out.append(tuple((k, vals[(i * 3 + shift + keys.index(k)) % len(vals)]) for i, k in enumerate(ks)))
  return out


def shard_structured(arg):
  name, sets, with_name_tag = arg
  N = Norm()
  n = 0
  nontrivial = 0
  bad = []

  def report(key, what, rep):
    if len(bad) < 4 and not any(b[0] == key for b in bad):
      bad.append((key, what, rep))
  for tags in sets:
    tags = list(tags)
    if with_name_tag:
      tags = tags + [('name', 'other')]
    perms = list(itertools.permutations(tags))
    # in carbon syntax a key containing ';' or '=' re-tokenises into another tag set: the reference
    # judges the string as the documented syntax tokenises it (the verdict is order independent)
    wf = wf_carbon(render_carbon(name, tags))
    if wf is None or any(wf_carbon(render_carbon(name, p_)) != wf for p_ in perms):
      continue
    wf_struct = well_formed(name, tags)
    norms = {}
    for perm in perms:
      x = render_carbon(name, perm)
      n += 1
      acc, nx, dis = N.norm(x)
      if dis:
        report('entry-points-disagree', 'for %r: %s' % (x, dis), {'string': x})
      norms.setdefault((acc, nx if acc else None), []).append(x)
      if wf and not acc:
        report('rejects-well-formed:' + classify(x), 'well-formed %r rejected (carbon syntax)' % (x,), {'string': x})
      if not wf:
        if acc:
          report('accepts-ill-formed', '%r violates the tag rules but was accepted as %r' % (x, nx), {'string': x})
        elif nx != x:
          report('rejected-but-altered', '%r rejected but stored/relayed as %r' % (x, nx), {'string': x})
    accepted = [k for k in norms if k[0]]
    if wf and len(norms) > 1:
      xs = [v[0] for v in norms.values()][:2]
      report('permutation:' + ('syntax-heuristic' if any(classify(x) == 'syntax-heuristic' for v in norms.values() for x in v) else 'other'),
             'permutations of one tag list normalise differently: %r -> %r' % (xs, [N.parse(x) for x in xs]),
             {'string': xs[0], 'other': xs[1]})
    elif wf and len(accepted) == 1 and len(perms) > 1:
      nontrivial += 1
    if om_expressible(name, tags):
      wf = wf_struct
      omnorms = {}
      for perm in perms:
        x = render_om(name, perm)
        n += 1
        acc, nx, dis = N.norm(x)
        if dis:
          report('entry-points-disagree', 'for %r: %s' % (x, dis), {'string': x})
        omnorms.setdefault((acc, nx if acc else None), []).append(x)
        if wf and not acc:
          report('rejects-well-formed:openmetrics', 'well-formed %r rejected (OpenMetrics syntax)' % (x,), {'string': x})
        if not wf and acc and not wf_carbon(x):
          # (a string that is ill-formed as OpenMetrics but well-formed under the carbon tokenisation - a ';' inside
          # a quoted value - is a legitimate carbon series and is not judged here)
          report('accepts-ill-formed', '%r violates the tag rules but was accepted as %r' % (x, nx), {'string': x})
        if not wf and not acc and nx != x:
          report('rejected-but-altered', '%r rejected but stored/relayed as %r' % (x, nx), {'string': x})
      if wf and len(omnorms) > 1:
        xs = [v[0] for v in omnorms.values()][:2]
        report('permutation:openmetrics', 'OpenMetrics permutations normalise differently: %r' % (xs,), {'string': xs[0]})
      if wf and len(omnorms) == 1 and len(accepted) == 1 and list(omnorms)[0] != accepted[0]:
        report('syntax-dependence', 'carbon rendering %r -> %r but OpenMetrics rendering %r -> %r' % (
          render_carbon(name, tags), accepted[0][1], render_om(name, tags), list(omnorms)[0][1]),
          {'string': render_om(name, tags), 'other': render_carbon(name, tags)})
      elif wf:
        nontrivial += 1
  return n, nontrivial, bad


# ---- (C) OpenMetrics token sequences -----------------------------------------------------------------------------------
OM_TOKENS = ['b="c"', 'd="e"', 'k="v\\"w"', 'b=""', '="x"', 'junk', 'b=c', 'b="c', '"x"', '', 'a="1"']


def tokenize_om(x):
  """The documented OpenMetrics form name{tag="value",...}: tags are non-empty and free of '=', values are non-empty
  quoted strings in which only \\" and \\\\ are escaped, pairs are separated by ','.  (name, [(tag, value)]) or None."""
  if not x.endswith('}') or '{' not in x:
    return None
  name, raw = x[:-1].split('{', 1)
  tags = []
  i = 0
  while i < len(raw):
    j = raw.find('=', i)
    if j <= i or raw[j + 1:j + 2] != '"':
      return None
    tag = raw[i:j]
    k = j + 2
    val = ''
    while True:
      if k >= len(raw):
        return None
      c = raw[k]
      if c == '\\':
        if raw[k + 1:k + 2] in ('"', '\\'):
          val += raw[k + 1]
          k += 2
          continue
        return None
      if c == '"':
        break
      val += c
      k += 1
    if not val:
      return None
    k += 1
    tags.append((tag, val))
    if k == len(raw):
      break
    if raw[k] != ',':
      return None
    i = k + 1
  return name, tags


def shard_om_tokens(arg):
  names, seqs = arg
  N = Norm()
  n = nontrivial = 0
  bad = []

  def report(key, what, rep):
    if len(bad) < 4 and not any(b[0] == key for b in bad):
      bad.append((key, what, rep))
  for name in names:
    for seq in seqs:
      x = name + '{' + ','.join(seq) + '}'
      if ';' in x or not x.endswith('"}'):
        continue      # not an OpenMetrics-looking string (judged by the other parts)
      n += 1
      acc, nx, dis = N.norm(x)
      if dis:
        report('entry-points-disagree', 'for %r: %s' % (x, dis), {'string': x})
        continue
      t = tokenize_om(x)
      ok = t is not None and t[0] == name and len(set(k for k, _ in t[1])) == len(t[1]) and well_formed(name, t[1])
      if t is not None and len(set(k for k, _ in t[1])) != len(t[1]):
        continue      # duplicate keys: not judged
      if ok:
        want = N.norm(render_carbon(name, t[1]))
        if not acc:
          report('rejects-well-formed:openmetrics', 'well-formed %r rejected (OpenMetrics syntax)' % (x,), {'string': x})
        elif want[0] and want[1] != nx:
          report('syntax-dependence', 'OpenMetrics %r -> %r but the same tags in carbon syntax %r -> %r' % (
            x, nx, render_carbon(name, t[1]), want[1]), {'string': x, 'other': render_carbon(name, t[1])})
        else:
          nontrivial += 1
      elif nx != x:
        # not a well-formed OpenMetrics series (and, containing no ';', a plain untagged name as a carbon path):
        # it must be stored and relayed exactly as received
        report('ill-formed-openmetrics-altered', '%r is not a well-formed OpenMetrics series but was stored/relayed as %r' % (x, nx),
               {'string': x})
  return n, nontrivial, bad


def long_names(_):
  """Names far longer than anything a log line wants to print, well-formed and not: what is stored and relayed is the
  whole name (normalised or exactly as received), never a clipped one."""
  N = Norm()
  bad = []
  n = 0
  for L in (399, 400, 401, 450, 1000, 5000):
    body = 'a' * L
    cases = [(body + ';=x', False), (body + ';k=', False), ('m;' + 'k' * L + '!=v', False), (body + ';x', False),
             (body + 'A;k=v;b=w', True), (body + 'B;k=v;b=w', True), ('m;z=' + 'v' * L + ';b=w', True)]
    for x, wf in cases:
      n += 1
      acc, nx, dis = N.norm(x)
      if dis:
        bad.append(('entry-points-disagree', 'for a %d-character name %r...: %s' % (len(x), x[:12], dis[:300]), {'string': x}))
      elif wf and not acc:
        bad.append(('rejects-well-formed:other', 'well-formed %d-character name %r...%r rejected' % (len(x), x[:8], x[-10:]), {'string': x}))
      elif not wf and (acc or nx != x):
        bad.append(('rejected-but-altered' if not acc else 'accepts-ill-formed', 'ill-formed %d-character name %r...%r was %s as a '
                    '%d-character name ...%r' % (len(x), x[:8], x[-8:], 'accepted' if acc else 'stored/relayed', len(nx), nx[-12:]), {'string': x}))
      elif wf and acc and len(nx) != len(x):
        bad.append(('normalisation-changes-length', 'well-formed %d-character name normalised to %d characters' % (len(x), len(nx)), {'string': x}))
  return n, bad[:3]


HISTORY_TEXTS = ['dc="eu"', 'host="a",dc="eu"', 'k=v', 'b=c;a=d', 'k="v";j="w"', '~=}"', 'a="1"', 'k=v,j=w', 'b=c', '']


def history_pool():
  # the same raw tag text in both syntaxes (it means different tags in each), and the bare name
  pool = ['x']
  for t in HISTORY_TEXTS:
    pool += ['x;' + t, 'x{' + t + '}', 'y;' + t, 'y{' + t + '}']
  return pool


def history_order(order):
  """One process, the pool parsed in the given order: (string, accepted, normal form) for each.  Run once per order in a
  process of its own; a name's normal form must not depend on what the daemon has seen before."""
  env.boot()
  N = Norm()
  pool = history_pool()
  if order == 'reverse':
    pool = pool[::-1]
  elif order == 'om-first':
    pool = [x for x in pool if '{' in x] + [x for x in pool if '{' not in x]
  out = []
  for x in pool + pool:       # twice: the second pass is served by whatever the first pass left behind
    acc, nx, dis = N.norm(x)
    out.append((x, bool(acc), nx, dis or ''))
  return out


def run(ctx):
  env.boot()
  orders = ['forward', 'reverse', 'om-first']
  hres = core.pmap(history_order, orders, fresh=True)
  seen = {}
  for order, rows in zip(orders, hres):
    for x, acc, nx, dis in rows:
      if dis:
        ctx.violation('entry-points-disagree', 'for %r (pool parsed in %s order): %s' % (x, order, dis), {'string': x})
        break
      first = seen.setdefault(x, (order, acc, nx))
      if first[1:] != (acc, nx):
        ctx.violation('history-dependent', 'the name %r is %s as %r when the pool %r is parsed in %s order, and %s as %r in %s order: '
                      'what a name is stored under depends on what the daemon has seen before' % (
                        x, 'accepted' if first[1] else 'rejected/kept', first[2], HISTORY_TEXTS, first[0],
                        'accepted' if acc else 'rejected/kept', nx, order), {'history': order, 'string': x})
        break
  ctx.add(history_orders=len(orders), history_pool=len(history_pool()))
  ln, lbad = core.pmap(long_names, [0])[0]
  for key, what, rep in lbad:
    ctx.violation(key, what, rep)
  ctx.add(long_name_cases=ln)
  om_len = ctx.pick(3, 4)
  seqs = [t for k in range(1, om_len + 1) for t in itertools.product(OM_TOKENS, repeat=k)]
  ores = core.pmap(shard_om_tokens, [(('m', 'a.b', '~m'), seqs[i::16]) for i in range(16)], chunksize=1)
  n3 = nt3 = 0
  for cnt, nontriv, bad in ores:
    n3 += cnt
    nt3 += nontriv
    for key, what, rep in bad:
      ctx.violation(key, what, rep)
  ctx.add(openmetrics_token_sequences=n3, openmetrics_well_formed_agreeing=nt3)
  maxlen = ctx.pick(4, 5)
  prefixes = [''] + [a + b for a in STR_ALPHABET for b in STR_ALPHABET] + list(STR_ALPHABET)
  tasks = [(p, maxlen if len(p) == 2 else len(p)) for p in prefixes]
  res = core.pmap(shard_strings, core.seeded_order(tasks, ctx.seed), chunksize=4)
  n = nt = 0
  for cnt, nontriv, bad in res:
    n += cnt
    nt += nontriv
    for key, what, rep in bad:
      ctx.violation(key, what, rep)
  sets = tagsets(ctx.pick(3, 4), ctx.thorough)
  stasks = []
  for name in NAMES:
    for wn in (False, True):
      for i in range(8):
        stasks.append((name, sets[i::8], wn))
  res = core.pmap(shard_structured, core.seeded_order(stasks, ctx.seed), chunksize=1)
  n2 = nt2 = 0
  for cnt, nontriv, bad in res:
    n2 += cnt
    nt2 += nontriv
    for key, what, rep in bad:
      ctx.violation(key, what, rep)
  ctx.add(evaluations=n + n2, distinct_nontrivial=nt + nt2, exhaustive=True, strings=n, structured_renderings=n2,
          tag_sets=len(sets) * len(NAMES) * 2, max_string_length=maxlen, max_tags=ctx.pick(3, 4),
          rule='(A) every non-empty string over %r up to length %d; (B) names %r x tag sets of <=%d keys from pools with all '
               'reserved characters x all permutations x {carbon, OpenMetrics where expressible} x with/without a name tag; '
               'non-trivial = accepted strings whose norm differs from the input, resp. well-formed tag sets whose >1 '
               'permutations/syntaxes all agree' % (''.join(STR_ALPHABET), maxlen, NAMES, ctx.pick(3, 4)))
  ctx.sample({'carbon': render_carbon('m', [('k2', 'y"}'), ('k', '{')]), 'openmetrics': render_om('m', [('k2', 'y"}'), ('k', '{')])})
  ctx.sample({'string': 'a;~=\\{"'})


def replay(path):
  body = json.load(open(path))
  rep = body['replay']
  if 'history' in rep:
    env.boot()
    rows = {}
    for order in ('forward', 'reverse', 'om-first'):
      for x, acc, nx, dis in core.pmap(history_order, [order], fresh=True)[0]:
        if x == rep['string']:
          rows.setdefault(order, (acc, nx))
    for order, (acc, nx) in rows.items():
      print('%-9s order: %r accepted=%s stored as %r' % (order, rep['string'], acc, nx))
    same = len(set(rows.values())) == 1
    print('oracle:', 'holds' if same else 'the normal form depends on the history')
    return 0 if same else 1
  N = Norm()
  bad = 0
  for k in ('string', 'other'):
    if k in rep:
      x = rep[k]
      acc, nx, dis = N.norm(x)
      acc2, nnx, _ = N.norm(nx)
      print('%r: accepted=%s norm=%r norm(norm)=%r %s' % (x, acc, nx, nnx, dis or ''))
      if dis or nnx != nx:
        bad = 1
  if 'other' in rep and N.norm(rep['string'])[1] != N.norm(rep['other'])[1]:
    print('the two spellings normalise differently')
    bad = 1
  return bad
