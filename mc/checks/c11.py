"""C11 - malformed input is skipped without harming the connection or its neighbours."""
import itertools
import json
import math
import struct

from .. import core, env, pk, segx, wire

LEVEL = 'model_checking'
MANIFEST = {
  'engine': 'segx',
  'technique': 'differential explicit-state search: streams of well-formed datapoints interleaved with malformed items '
               'at every position under ALL segmentations (segx), every pickle opcode program up to length 3 (4), every '
               'single-byte mutation of valid streams; oracle = same delivered log as the stream without the malformed '
               'items, no escaping exception, no disconnect',
  'text': 'Malformed line items (invalid UTF-8, wrong field counts, unparsable and non-finite numbers, long lines), '
          'malformed pickle frames and entries (truncated, garbage, wrong top-level type, wrong arity, wrong element '
          'types, huge ints, non-finite timestamps, global references) are placed before, between and after well-formed '
          'datapoints on the line, UDP and pickle listeners; TCP streams are explored over all cut positions. All '
          '68^3 (thorough 68^4) pickle opcode programs are executed on stringReceived, and every single-byte mutation '
          '(6 replacement values per position) of valid line and pickle streams is fed. Only an over-length item may '
          'close the connection.',
  'note': 'Characters that str.splitlines() treats as line breaks are outside the malformed alphabet (TCP and UDP '
          'legitimately differ there, DESIGN.md I4). PICKLE_RECEIVER_MAX_LENGTH configured (64, 4096, 3 MiB) before the listener module is imported: a frame of exactly that length is ingested.',
}

V1 = ('a.b', 1700000000, 1.5)
V2 = ('é.ü', 1700000060, -2.0)
V3 = ('c', 1, 3.0)

BAD_LINES = [
  ('utf8-ff', b'\xff 1 1700000000'),
  ('utf8-truncated', b'a\xe2\x82 1 1700000000'),
  ('one-field', b'a'),
  ('two-fields', b'a 1'),
  ('four-fields', b'a 1 2 3'),
  ('empty', b''),
  ('blanks', b'   '),
  ('value-abc', b'a abc 1'),
  ('value-1e', b'a 1e 1'),
  ('value---1', b'a --1 1'),
  ('value-0x10', b'a 0x10 1'),
  ('ts-abc', b'a 1 abc'),
  ('value-nan', b'a nan 1'),
  ('ts-nan', b'a 1 nan'),
  ('ts-inf', b'a 1 inf'),
  ('ts--inf', b'a 1 -inf'),
  ('ts-1e999', b'a 1 1e999'),
  ('long-500', b'a' * 500),
  ('utf8-long', b'\xff' * 450 + b' 1 1'),
  ('long-3-fields-bad-number', b'a' * 450 + b' x 1'),
  # malformed text is echoed into log messages: characters that mean something to printf / str.format / repr
  ('percent-value', b'cpu.load 95% 101'),
  ('percent-directives', b'%s %d %(x)s %'),
  ('brace-fields', b'a {0} {x} {'),
  ('backslash-quote', b'a \\x \'"1'),
]
OVERLONG_LINE = ('line-over-16384', b'a' * 16390 + b' 1 1')


def P(obj, proto=2):
  import pickle
  return pickle.dumps(obj, protocol=proto)


def bad_frames():
  good = [('a.b', (1, 1.0))]
  out = [
    ('empty-frame', b''),
    ('truncated', P(good)[:-4]),
    ('garbage', b'\x00\x01\x02garbage'),
    ('top-int', P(5)),
    ('top-none', P(None)),
    ('top-str', P('abc')),
    ('top-dict', P({'a': 1})),
    ('top-float', P(1.5)),
    ('global-os-system', pk.prog(pk.g_global('os', 'system') + pk.tup(pk.s('true')) + b'R', 2)),
    ('global-in-metric', pk.prog(pk.lst(pk.tup(pk.g_global('os', 'system'), pk.tup(pk.i(1), pk.f(1.0)))), 2)),
    ('global-percent-name', pk.prog(pk.g_global('100%s', '%d{0}'), 2)),
  ]
  return out


def bad_entries():
  """Entries that are malformed inside an otherwise well-formed frame (neighbours must survive)."""
  return [
    ('arity-1', ('a',)),
    ('arity-3', ('a', (1, 2.0), 3)),
    ('inner-arity-1', ('a', (1,))),
    ('inner-arity-3', ('a', (1, 2.0, 3))),
    ('inner-none', ('a', None)),
    ('entry-int', 5),
    ('entry-none', None),
    ('entry-str', 'abc'),
    ('metric-int', (5, (1, 2.0))),
    ('metric-none', (None, (1, 2.0))),
    ('metric-bytes', (b'a', (1, 2.0))),
    ('metric-list', (['a'], (1, 2.0))),
    ('value-str', ('a', (1, 'x'))),
    ('value-percent-str', ('a', (1, '%s%d{0}'))),
    ('entry-percent-str', '%s %d {0}'),
    ('value-none', ('a', (1, None))),
    ('value-list', ('a', (1, [2]))),
    ('value-10**400', ('a', (1, 10 ** 400))),
    ('ts-10**400', ('a', (10 ** 400, 1.0))),
    ('ts-nan', ('a', (math.nan, 1.0))),
    ('ts-inf', ('a', (math.inf, 1.0))),
    ('ts--inf', ('a', (-math.inf, 1.0))),
    ('ts-none', ('a', (None, 1.0))),
    ('value-nan', ('a', (1, math.nan))),
    # wrong shape AND something python refuses to render (int() -> str conversion limit)
    ('entry-huge-int', 10 ** 5000),
    ('arity-2-huge-int', ('a', 10 ** 5000)),
    ('arity-3-huge-int', ('a', (1, 2.0), 10 ** 5000)),
    ('metric-huge-int', (10 ** 5000, (1, 2.0))),
    ('value-huge-int', ('a', (1, 10 ** 5000))),
  ]


def frame(body):
  return struct.pack('!I', len(body)) + body


def valid_item(kind, dp):
  n, ts, v = dp
  if kind == 'pickle':
    return wire.pickle_frame([dp])
  return wire.line(n, ts, v)


def expected(dps):
  return [(n, float(ts), float(v)) for n, ts, v in dps]


# ---- (1) item streams under all segmentations ----------------------------------------------------------------------
def stream_cases(thorough):
  cases = []
  valid = [V1, V2]
  for kind in ('line', 'udp'):
    for name, raw in BAD_LINES:
      for pos in (0, 1, 2):
        cases.append((kind, [name], pos, [raw + b'\n'], False))
    pairs = list(itertools.product(BAD_LINES[:6] + BAD_LINES[13:16], repeat=2)) if thorough else \
        list(zip(BAD_LINES, BAD_LINES[1:] + BAD_LINES[:1]))
    for (n1, r1), (n2, r2) in pairs:
      cases.append((kind, [n1, n2], 1, [r1 + b'\n', r2 + b'\n'], False))
    # the same malformed line twice in a row (a client that repeats itself; whatever the first one left behind in the
    # connection must not make the second one - or the valid line after it - come out differently), first on a fresh
    # connection and after a valid line
    for name, raw in BAD_LINES:
      if len(raw) < 100:
        for pos in (0, 1):
          cases.append((kind, [name, name + '-again'], pos, [raw + b'\n', raw + b'\n'], False))
  cases.append(('line', [OVERLONG_LINE[0]], 1, [OVERLONG_LINE[1] + b'\n'], True))
  for name, body in bad_frames():
    for pos in (0, 1, 2):
      cases.append(('pickle', [name], pos, [frame(body)], False))
  return cases


def run_stream_case(case):
  kind, names, pos, bad_items, may_close = case
  valid = [V1, V2]
  items = [valid_item(kind, d) for d in valid]
  stream_items = items[:pos] + bad_items + items[pos:]
  want = expected(valid)
  what = '%s stream with malformed %r at position %d' % (kind, names, pos)
  rep = {'kind': kind, 'malformed': names, 'position': pos}
  if kind == 'udp':
    out = []
    n = 0
    for grams in ([b''.join(stream_items)], stream_items):       # one datagram / one datagram per line
      rig = wire.Rig('udp')
      exc = None
      for g in grams:
        exc = exc or rig.feed(g)
      got = list(rig.delivered)
      rig.close()
      n += 1
      rep2 = dict(rep, datagrams=[g.hex() for g in grams])
      if exc is not None:
        out.append(('escape:udp:%s' % type(exc).__name__, '%s: %r escaped datagramReceived' % (what, exc), rep2))
      elif got != want:
        out.append(('neighbours-harmed:udp', '%s: delivered %r, without the malformed item %r' % (what, got, want), rep2))
    return (len(grams), n, n, out)
  stream = b''.join(stream_items)
  if len(stream) > 4000:
    # the over-length line: all segmentations are too many; every <=1-cut segmentation instead
    res = []
    n = 0
    first = None
    bounds = []
    o = 0
    for it in stream_items:
      o += len(it)
      bounds.append(o)
    cuts = [None] + sorted(set(range(1, len(stream), 257)) | set(p for b in bounds for p in (b - 1, b, b + 1) if 0 < p < len(stream)))
    for cut in cuts:
      r = segx.run_cuts(kind, stream, [] if cut is None else [cut])
      n += 1
      if r.exc is not None:
        res.append(('escape:%s:%s' % (kind, type(r.exc).__name__), '%s: %r escaped dataReceived' % (what, r.exc),
                    dict(rep, stream_hex='', cuts=[cut])))
        break
      before = expected(valid[:pos])
      if list(r.sh['delivered'])[:len(before)] != before:
        res.append(('neighbours-harmed:' + kind, '%s: datapoints before the over-length line lost: %r' % (what, list(r.sh['delivered'])),
                    dict(rep, stream_hex='', cuts=[cut])))
        break
      obs = r.observable()
      if first is None:
        first = (cut, obs)
      elif obs != first[1]:
        res.append(('segmentation-dependent:' + kind, '%s: cut at %r gives %r, cut at %r gives %r' % (what, first[0], first[1], cut, obs),
                    dict(rep, stream_hex='', cuts=[cut])))
        break
    return (n, n, n, res)
  offsets = None
  if len(stream) > 250:
    # long items: all cut positions within 8 bytes of an item boundary, plus every 29th byte
    bounds = []
    o = 0
    for it in stream_items:
      o += len(it)
      bounds.append(o)
    offsets = sorted(set(p for b in [0] + bounds for p in range(b - 8, b + 9)) | set(range(1, len(stream), 29)))
  r = segx.explore_stream(kind, stream, 1, offsets)
  rep['stream_hex'] = stream.hex()
  out = []
  if r['divergence'] is not None:
    d = r['divergence']
    key = 'segmentation-dependent:' + kind
    if 'escaped' in repr(d) or 'Error' in repr(d.get('observable_cut', '')):
      pass
    out.append((key, '%s: outcome depends on the cut positions %r: %r' % (what, d['cuts'], d), dict(rep, cuts=d['cuts'])))
  else:
    got = r['final_raw']
    if r['exc'] is not None:
      out.append(('escape:%s:%s' % (kind, type(r['exc']).__name__), '%s: %r escaped dataReceived' % (what, r['exc']), dict(rep, cuts=[])))
    elif r['final'][2] and not may_close:
      out.append(('closed:' + kind, '%s: the connection was closed' % what, dict(rep, cuts=[])))
    elif got != want:
      out.append(('neighbours-harmed:' + kind, '%s: delivered %r, without the malformed item %r' % (what, got, want), dict(rep, cuts=[])))
  return (r['states'], r['transitions'], r['executions'], out)


# ---- (2) malformed entries inside a frame ----------------------------------------------------------------------------
def run_entry_case(case):
  name, entry, pos, proto = case
  good = [(d[0], (d[1], d[2])) for d in (V1, V2)]
  entries = good[:pos] + [entry] + good[pos:]
  body = P(entries, proto)
  stream = frame(body) + wire.pickle_frame([V3])
  want = expected([V1, V2, V3])
  what = 'pickle frame with malformed entry %s at position %d (protocol %d)' % (name, pos, proto)
  rep = {'kind': 'pickle', 'malformed': [name], 'position': pos, 'stream_hex': stream.hex(), 'cuts': []}
  r = segx.run_cuts('pickle', stream, [])
  out = []
  got = list(r.sh['delivered'])
  if r.exc is not None:
    out.append(('escape:pickle:%s' % type(r.exc).__name__, '%s: %r escaped dataReceived' % (what, r.exc), rep))
  elif r.transport.disconnecting:
    out.append(('closed:pickle', '%s: the connection was closed' % what, rep))
  elif got != want:
    out.append(('neighbours-harmed:pickle', '%s: delivered %r, without the malformed entry %r' % (what, got, want), rep))
  return (1, 1, 1, out)


# ---- (2b) the configured maximum frame length -------------------------------------------------------------------------
def configured_limit_case(limit):
  """PICKLE_RECEIVER_MAX_LENGTH is configured BEFORE the listener module is imported (the daemons read carbon.conf first and
  import carbon.protocols while building the service; emulated by reloading the module after the setting is in place).
  A well-formed frame of exactly the configured length is ingested and leaves the connection open; only a length prefix
  above it may close the connection."""
  settings = env.boot()
  env.reset_state()
  import importlib
  settings['PICKLE_RECEIVER_MAX_LENGTH'] = limit
  import carbon.protocols
  importlib.reload(carbon.protocols)
  out = []
  try:
    # a frame whose body is exactly `limit` bytes: one datapoint with a padded metric name
    probe = wire.pickle_frame([('x', 1, 1.0)], 2)[4:]
    pad = limit - len(probe)
    if pad < 0:
      raise core.HarnessError('limit %d too small for a datapoint frame' % limit)
    name = 'x' + 'y' * pad
    body = wire.pickle_frame([(name, 1, 1.0)], 2)[4:]
    while len(body) != limit:       # the length field of the string opcode may change size
      name = name[:len(name) - (len(body) - limit)] if len(body) > limit else name + 'y' * (limit - len(body))
      body = wire.pickle_frame([(name, 1, 1.0)], 2)[4:]
    small = wire.pickle_frame([('a', 2, 2.0)], 2)
    for what, stream, want, closes in (
        ('frame of exactly the configured %d bytes between two small frames' % limit,
         small + wire.struct.pack('!I', len(body)) + body + small, [('a', 2.0, 2.0), (name, 1.0, 1.0), ('a', 2.0, 2.0)], False),
        ('length prefix of configured maximum + 1 after a small frame', small + wire.struct.pack('!I', limit + 1) + b'x' * 16,
         [('a', 2.0, 2.0)], True)):
      for cut in (None, 4 + len(small) + 2):
        rig = wire.Rig('pickle')
        exc = None
        for chunk in ([stream] if cut is None else [stream[:cut], stream[cut:]]):
          if rig.closing:
            break       # a transport that was told to close delivers no further reads
          exc = exc or rig.feed(chunk)
        got = [(m, float(t), float(v)) for m, t, v in rig.delivered]
        closed = rig.closing
        rig.close()
        rep = {'configured_limit': limit, 'case': what}
        if exc is not None:
          out.append(('escape:pickle:%s' % type(exc).__name__, 'PICKLE_RECEIVER_MAX_LENGTH=%d, %s: %r escaped' % (limit, what, exc), rep))
        elif got != want:
          out.append(('neighbours-harmed:pickle', 'PICKLE_RECEIVER_MAX_LENGTH=%d, %s: delivered %d datapoints %r..., expected %d' % (
            limit, what, len(got), [g[0][:12] for g in got][:3], len(want)), rep))
        elif closed and not closes:
          # (a frame above the configured maximum MAY close the connection; the statement does not demand that it does)
          out.append(('closed:pickle', 'PICKLE_RECEIVER_MAX_LENGTH=%d, %s: connection was closed' % (limit, what), rep))
  finally:
    settings['PICKLE_RECEIVER_MAX_LENGTH'] = 2 ** 20
    importlib.reload(carbon.protocols)
  return (4, 4, 4, out[:2])


# ---- (3) opcode programs ------------------------------------------------------------------------------------------------
def run_opcode_shard(arg):
  first, length = arg
  env.boot()
  import resource
  # guard: a mis-framed program must fail with MemoryError instead of really allocating gigabytes
  resource.setrlimit(resource.RLIMIT_AS, (4 * 2 ** 30, 4 * 2 ** 30))
  r = segx.Receiver('pickle')
  proto = r.proto
  ops = [b for _, b in pk.OPCODES]
  names = [n for n, _ in pk.OPCODES]
  n = 0
  classes = {}
  out = []
  seen_keys = set()
  for L in range(1, length + 1):
    if L == 1 and first != 0:
      continue
    for tail in itertools.product(range(len(ops)), repeat=L - 1):
      idxs = (first,) + tail if L > 1 else None
      if L == 1:
        for i in range(len(ops)):
          _one((i,), ops, names, proto, r, classes, out, seen_keys)
          n += 1
        break
      _one(idxs, ops, names, proto, r, classes, out, seen_keys)
      n += 1
  return (n, len(classes), out)


def run_opcode_neighbours(arg):
  """valid frame, opcode-program frame, valid frame on ONE connection: the neighbours must be delivered exactly
  as if the program frame were alone (no state of the unpickler may leak from one frame into the next)."""
  first, length = arg
  env.boot()
  ops = [b for _, b in pk.OPCODES]
  names = [n for n, _ in pk.OPCODES]
  f1 = wire.pickle_frame([V1])
  f3 = wire.pickle_frame([V3])
  e1, e3 = expected([V1]), expected([V3])
  n = 0
  out = []
  progs = []
  for L in range(1, length + 1):
    if L == 1:
      if first == 0:
        progs += [(i,) for i in range(len(ops))]
      continue
    progs += [(first,) + t for t in itertools.product(range(len(ops)), repeat=L - 1)]
  for idxs in progs:
    prog = b''.join(ops[i] for i in idxs) + b'.'
    alone = segx.run_cuts('pickle', frame(prog), [])
    d_alone = list(alone.sh['delivered'])
    if alone.exc is not None:
      continue          # reported by the escape check
    r = segx.run_cuts('pickle', f1 + frame(prog) + f3, [])
    got = list(r.sh['delivered'])
    n += 1
    if r.exc is None and got != e1 + d_alone + e3 and len(out) < 3:
      out.append(('frame-state-leak', 'frames [valid, %s STOP, valid] on one connection delivered %r; the program frame alone delivers %r, so '
                  '%r was expected' % (' '.join(names[i] for i in idxs), got, d_alone, e1 + d_alone + e3),
                  {'kind': 'pickle', 'stream_hex': (f1 + frame(prog) + f3).hex(), 'cuts': [], 'malformed': ['opcode program']}))
  return (n, n, out)


def _one(idxs, ops, names, proto, r, classes, out, seen_keys):
  prog = b''.join(ops[i] for i in idxs) + b'.'
  del r.sh['delivered'][:]
  try:
    proto.stringReceived(prog)
    classes['ok'] = classes.get('ok', 0) + 1
  except Exception as e:   # noqa
    k = 'escape:pickle:%s' % type(e).__name__
    classes[k] = classes.get(k, 0) + 1
    if k not in seen_keys and len(out) < 6:
      seen_keys.add(k)
      out.append((k, 'opcode program %s: %r escaped stringReceived' % (' '.join(names[i] for i in idxs) + ' STOP', e),
                  {'kind': 'pickle-program', 'program_hex': prog.hex()}))
  if r.transport.disconnecting:
    r.transport.disconnecting = False
    if 'closed' not in seen_keys:
      seen_keys.add('closed')
      out.append(('closed:pickle', 'opcode program %s closed the connection' % ' '.join(names[i] for i in idxs),
                  {'kind': 'pickle-program', 'program_hex': prog.hex()}))


# ---- (4) single-byte mutations of valid streams ---------------------------------------------------------------------------
MUT = [0x00, 0x0a, 0x20, 0x80, 0xff, None]     # None = flip the low bit


def run_mutation_case(case):
  kind, which = case
  dps = [V1, V2, V3]
  items = [valid_item(kind, d) for d in dps]
  stream = b''.join(items)
  bounds = []
  off = 0
  for it in items:
    bounds.append((off, off + len(it)))
    off += len(it)
  n = 0
  out = []
  maxlen = 2 ** 20
  for pos in range(len(stream)):
    for m in MUT:
      b = stream[pos] ^ 1 if m is None else m
      if b == stream[pos]:
        continue
      mutated = stream[:pos] + bytes([b]) + stream[pos + 1:]
      n += 1
      rig = wire.Rig(kind) if kind == 'udp' else None
      if kind == 'udp':
        exc = rig.feed(mutated)
        got = list(rig.delivered)
        closing = False
        rig.close()
      else:
        r = segx.run_cuts(kind, mutated, [])
        exc, got, closing = r.exc, list(r.sh['delivered']), r.transport.disconnecting
      rep = {'kind': kind, 'mutation': [pos, b], 'stream_hex': mutated.hex(), 'cuts': []}
      what = '%s stream with byte %d replaced by 0x%02x' % (kind, pos, b)
      if exc is not None:
        out.append(('escape:%s:%s' % (kind, type(exc).__name__), '%s: %r escaped the handler' % (what, exc), rep))
        continue
      if kind == 'pickle':
        if closing:
          # legitimate only if the mutated byte makes a length prefix exceed the maximum
          ok = False
          o = 0
          while o + 4 <= len(mutated):
            (ln,) = struct.unpack('!I', mutated[o:o + 4])
            if ln > maxlen:
              ok = True
              break
            o += 4 + ln
          if not ok:
            out.append(('closed:pickle', '%s: connection closed although no frame exceeds the maximum length' % what, rep))
        continue
      if closing:
        out.append(('closed:' + kind, '%s: the connection was closed' % what, rep))
        continue
      hit = [i for i, (a, z) in enumerate(bounds) if a <= pos < z]
      if stream[pos:pos + 1] == b'\n':
        hit.append(hit[0] + 1)      # destroying a delimiter merges the line with the one that follows
      untouched = [expected([d])[0] for i, d in enumerate(dps) if i not in hit]
      # the untouched lines must be delivered unchanged, in order (fragments of the damaged line may add deliveries)
      it = iter(got)
      if not all(any(g == u for g in it) for u in untouched) or len(got) > len(untouched) + 2:
        out.append(('neighbours-harmed:' + kind, '%s: delivered %r, the lines not containing that byte are %r' % (what, got, untouched), rep))
  return (n, n, n, out[:4])


def dispatch(task):
  t, case = task
  env.boot()
  if t == 'stream':
    return run_stream_case(case)
  if t == 'entry':
    return run_entry_case(case)
  if t == 'mut':
    return run_mutation_case(case)
  raise ValueError(t)


def run(ctx):
  env.boot()
  tasks = [('stream', c) for c in stream_cases(ctx.thorough)]
  for name, entry in bad_entries():
    for pos in (0, 1, 2):
      for proto in ((2,) if not ctx.thorough else (0, 2, 4)):
        if name == 'metric-bytes' and proto < 3:
          proto = 3     # protocols 0-2 pickle bytes through a global (_codecs.encode): that is a frame-level rejection
        if 'huge-int' in name and proto < 1:
          proto = 2     # protocol 0 writes integers as decimal text, which python refuses beyond 4300 digits
        tasks.append(('entry', (name, entry, pos, proto)))
  for kind in ('line', 'udp', 'pickle'):
    tasks.append(('mut', (kind, 0)))
  tasks = core.seeded_order(tasks, ctx.seed)
  res = core.pmap(dispatch, tasks, chunksize=1)
  S = T = E = 0
  passed = 0
  for (t, case), (st, tr, ex, bad) in zip(tasks, res):
    S += st
    T += tr
    E += ex
    if not bad:
      passed += 1
    for key, what, rep in bad:
      ctx.violation(key, what, rep)
  limits = (64, 4096, 3 * 2 ** 20)
  for limit, (st, tr, ex, bad) in zip(limits, core.pmap(configured_limit_case, limits, fresh=True)):
    S += st
    T += tr
    E += ex
    for key, what, rep in bad:
      ctx.violation(key, what, rep)
  ctx.add(configured_frame_limits=list(limits))
  length = ctx.pick(3, 4)
  ores = core.pmap(run_opcode_shard, [(i, length) for i in range(len(pk.OPCODES))], chunksize=1)
  progs = 0
  for n, ncls, bad in ores:
    progs += n
    for key, what, rep in bad:
      ctx.violation(key, what, rep)
  nres = core.pmap(run_opcode_neighbours, [(i, ctx.pick(2, 3)) for i in range(len(pk.OPCODES))], chunksize=1)
  for n_, _c, bad in nres:
    progs += n_
    for key, what, rep in bad:
      ctx.violation(key, what, rep)
  ctx.add(states=S + progs, transitions=T + progs, traces_validated_against_impl=E + progs, item_cases=len(tasks),
          item_cases_passed=passed, opcode_programs=progs, opcode_program_length=length,
          rule='malformed items (18 line kinds, 10 frame kinds, 22 entry kinds) x positions x listeners, TCP streams over all '
               'segmentations; 68^<=%d opcode programs; single-byte mutations (6 values per position) of 3-datapoint streams' % length)
  ctx.sample({'line_stream': (wire.line(*V1) + BAD_LINES[0][1] + b'\n' + wire.line(*V2)).hex(), 'malformed': BAD_LINES[0][0]})
  ctx.sample({'pickle_entry': 'metric-int', 'frame': P([('a.b', (1, 1.0)), (5, (1, 2.0))]).hex()})
  ctx.assumptions += ['a connection on which an exception escaped is considered lost (Twisted closes it)']


def replay(path):
  body = json.load(open(path))
  rep = body['replay']
  if 'configured_limit' in rep:
    st, tr, ex, bad = configured_limit_case(rep['configured_limit'])
    for key, what, _ in bad:
      print('oracle: [%s] %s' % (key, what))
    if not bad:
      print('oracle: holds')
    return 1 if bad else 0
  kind = rep['kind']
  if kind == 'pickle-program':
    r = segx.Receiver('pickle')
    try:
      r.proto.stringReceived(bytes.fromhex(rep['program_hex']))
      print('no exception')
      return 0
    except Exception as e:   # noqa
      print('escaped:', repr(e))
      return 1
  if kind == 'udp':
    rig = wire.Rig('udp')
    bad = 0
    for g in rep.get('datagrams') or [rep['stream_hex']]:
      exc = rig.feed(bytes.fromhex(g))
      print('datagram', bytes.fromhex(g)[:80], '->', repr(exc))
      bad += exc is not None
    print('delivered:', rig.delivered)
    return 1 if bad or len(rig.delivered) < 2 else 0
  r = segx.run_cuts(kind, bytes.fromhex(rep['stream_hex']), [c for c in (rep.get('cuts') or []) if c])
  print('delivered:', list(r.sh['delivered']))
  print('escaped exception:', repr(r.exc), 'disconnecting:', r.transport.disconnecting)
  return 1 if (r.exc is not None or r.transport.disconnecting) else 0
