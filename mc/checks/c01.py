"""C01 - well-formed datapoints are ingested exactly, however the byte stream is cut."""
import itertools
import json
import math

from .. import core, env, segx, wire

LEVEL = 'model_checking'
MANIFEST = {
  'engine': 'segx',
  'technique': 'explicit-state search over all segmentations of the byte stream fed to the real Twisted receivers '
               '(state = offset x canonical receiver state, one state per offset => all 2^(N-1) segmentations agree), '
               'plus direct enumeration of all segmentations with <=2 (3) cuts and byte-by-byte; all sequences of <=2 (3) '
               'datapoints over a 10-datapoint alphabet x all batchings',
  'text': 'For every sequence of up to 2 (thorough 3) datapoints from an alphabet chosen to hit every parser shortcut '
          '(ASCII / 2-,3-,4-byte UTF-8 names, integer and fractional timestamps up to 2^32-1, integer, subnormal, huge, '
          'signed-zero and infinite values), every batching into lines / datagrams / pickle frames and independent '
          'encoder variants (LF/CRLF, space/tab, pickle protocols 0-5, list/tuple, and python2-client pickles whose names are 8-bit UTF-8 strings: STRING/SHORT_BINSTRING/BINSTRING opcodes assembled by hand), the receiver state is explored over '
          'ALL cut positions; the delivered log must equal the sent sequence exactly (order, exactly once, name, '
          'timestamp, value with sign of zero), no exception may escape and the transport must stay open.',
  'note': 'Trusted: the independent encoder in mc/wire.py, the canonical receiver state (cross-checked by the <=k-cut '
          'enumeration that uses no state capture). protobuf listener not covered (library absent). Pickle batchings are also sent as python2 clients pickle them (8-bit UTF-8 names); a flow-control pause is injected during every datapoint, followed by a resume or by the loss of the connection. The listening side is explored as an evx system (mc/listenh.py: real receiver factory and connection-limit logic against a fake listening port with a backlog); datagrams of exactly the UDP read-buffer size; the alphabet once more with lists in force. A pickle frame of exactly the configured PICKLE_RECEIVER_MAX_LENGTH (64, 4096, 1 MiB) between two small frames.',
}

SIGMA = [
  ('a', 0, 0),
  ('a.b.c', 1, 1),
  ('x=1;y', 1700000000, -1.5),
  ('é.ü', 4294967295, 2 ** 53),
  ('日.本', 1700000000.5, 1e-12),
  ('😀', 1, 1.7976931348623157e308),
  ('a', 1700000000, 5e-324),
  ('a.b.c', 0, -0.0),
  ('é.ü', 1700000000.5, math.inf),
  ('日.本', 4294967295, -math.inf),
]


def compositions(seq):
  n = len(seq)
  out = []
  for mask in range(1 << (n - 1)):
    groups = []
    cur = [seq[0]]
    for i in range(1, n):
      if mask & (1 << (i - 1)):
        groups.append(cur)
        cur = []
      cur.append(seq[i])
    groups.append(cur)
    out.append(groups)
  return out


def expected(seq):
  return [(n, float(ts), float(v)) for n, ts, v in seq]


def same_log(got, want):
  if len(got) != len(want):
    return False
  for (gn, gt, gv), (wn, wt, wv) in zip(got, want):
    if gn != wn or not isinstance(gt, float) and not isinstance(gt, int) or gt != wt:
      return False
    if not isinstance(gv, float) or not wire.same_number(gv, wv):
      return False
  return True


def case_streams(idx, seq):
  """(kind, description, payload) - payload is a byte stream (tcp) or a list of datagrams (udp)."""
  end = [b'\n', b'\r\n'][idx % 2].decode()
  sep = [' ', '\t'][(idx // 2) % 2]
  out = []
  out.append(('line', {'end': end, 'sep': sep}, b''.join(wire.line(n, ts, v, sep, end) for n, ts, v in seq)))
  proto = idx % 6
  cont = [list, tuple][(idx // 6) % 2]
  pair = [tuple, list][(idx // 12) % 2]
  for groups in compositions(seq):
    out.append(('pickle', {'protocol': proto, 'container': cont.__name__, 'pair': pair.__name__, 'frames': [len(g) for g in groups]},
                b''.join(wire.pickle_frame(g, proto, cont, pair) for g in groups)))
    # the same message as a python2 client pickles it: names are 8-bit strings holding UTF-8
    p2 = (idx + len(groups)) % 3
    style = ['short', 'long'][(idx // 3) % 2]
    out.append(('pickle', {'py2_client': True, 'protocol': p2, 'strings': style, 'frames': [len(g) for g in groups]},
                b''.join(wire.pickle_frame_py2(g, p2, style) for g in groups)))
    grams = []
    for gi, g in enumerate(groups):
      data = b''.join(wire.line(n, ts, v, sep, end) for n, ts, v in g)
      if (idx + gi) % 3 == 0:
        data = data.rstrip(b'\r\n')      # a datagram need not end with a newline
      grams.append(data)
    out.append(('udp', {'end': end, 'sep': sep, 'datagrams': [len(g) for g in groups]}, grams))
  return out


def shard(arg):
  cases, max_cuts = arg
  env.boot()
  states = trans = execs = 0
  segs = 0
  bad = []
  okc = 0
  for idx, seq in cases:
    want = expected(seq)
    for kind, desc, payload in case_streams(idx, seq):
      rep = {'kind': kind, 'variant': desc, 'sequence': [list(x) for x in seq]}
      if kind == 'udp':
        rig = wire.Rig('udp')
        exc = None
        for g in payload:
          exc = exc or rig.feed(g)
        execs += 1
        trans += len(payload)
        got = list(rig.delivered)
        rig.close()
        if exc is not None or not same_log(got, want):
          if len(bad) < 3:
            bad.append(('udp-mismatch', 'UDP %r: sent %r, delivered %r, exception %r' % (desc, want, got, exc),
                        dict(rep, datagrams=[g.hex() for g in payload])))
        else:
          okc += 1
        continue
      r = segx.explore_stream(kind, payload, max_cuts)
      states += r['states']
      trans += r['transitions']
      execs += r['executions']
      segs += 1
      rep['stream_hex'] = payload.hex()
      if r['divergence'] is not None:
        if len(bad) < 3:
          bad.append(('segmentation-dependent:' + kind, '%s stream of %r %r: outcome depends on the cut positions %r: %r' % (
            kind, seq, desc, r['divergence']['cuts'], r['divergence']), dict(rep, cuts=r['divergence']['cuts'])))
        continue
      got = r['final_raw']
      if r['exc'] is not None or r['final'][2] or not same_log(got, want):
        if len(bad) < 3:
          bad.append(('ingest-mismatch:' + kind, '%s %r: sent %r, delivered %r, exception %r, disconnecting %r' % (
            kind, desc, want, got, r['exc'], r['final'][2]), dict(rep, cuts=[])))
      else:
        okc += 1
        # flow control pausing the receivers in the middle of a read must not strand what was already read
        for k in range(1, len(seq) + 1):
          for cuts, then in (([], 'resume'), ([len(payload) // 2], 'resume'), ([], 'lose')):
            rp = segx.run_with_pause(kind, payload, k, cuts, then)
            execs += 1
            gotp = list(rp.sh['delivered'])
            if rp.exc is not None or not same_log(gotp, want) or (then == 'resume' and rp.transport.producerState != 'producing'):
              if len(bad) < 3:
                bad.append(('pause-strands-data:' + kind, '%s %r: receivers paused during datapoint %d and %s: sent %r, '
                            'delivered %r, exception %r, transport %s' % (
                              kind, desc, k, 'resumed after the read' if then == 'resume' else 'the connection lost before they were resumed',
                              want, gotp, rp.exc, rp.transport.producerState),
                            dict(rep, cuts=cuts, pause_at=k, then=then)))
  return states, trans, execs, segs, okc, bad


def udp_sizes(_):
  """Datagrams at and just below the size of the UDP port's read buffer (twisted.internet.udp.Port.maxPacketSize = 8192:
  everything up to that size arrives complete) and at common MTU-derived sizes, filled with well-formed lines."""
  env.boot()
  bad = []
  n = 0
  for size in (508, 1472, 4096, 8190, 8191, 8192):
    for end in (b'\n', b''):
      lines = []
      seq = []
      i = 0
      while True:
        dp = ('m%04d.é' % i, 1700000000 + i, float(i) + 0.5)
        ln = wire.line(*dp)
        if sum(len(x) for x in lines) + len(ln) + 40 > size:
          break
        lines.append(ln)
        seq.append(dp)
        i += 1
      # the last line is padded with a long metric name so that the datagram has exactly `size` bytes
      used = sum(len(x) for x in lines)
      tail_fixed = len(wire.line('', 1, 1.5)) - (0 if end else 1)
      name = 'z' * (size - used - tail_fixed)
      last = wire.line(name, 1, 1.5)
      if not end:
        last = last.rstrip(b'\n')
      data = b''.join(lines) + last
      seq.append((name, 1, 1.5))
      assert len(data) == size, (len(data), size)
      rig = wire.Rig('udp')
      exc = rig.feed(data)
      got = list(rig.delivered)
      rig.close()
      n += 1
      if exc is not None or not same_log(got, expected(seq)):
        miss = [d[0][:12] for d in seq[len(got):]][:3]
        bad.append(('udp-mismatch', 'UDP datagram of exactly %d bytes (%d well-formed lines, %s trailing newline): %d delivered, exception %r, '
                    'first missing %r' % (size, len(seq), 'with' if end else 'without', len(got), exc, miss),
                    {'kind': 'udp', 'sequence': [list(x) for x in seq], 'datagrams': [data.hex()]}))
  return n, bad[:2]


def with_lists(_):
  """The same alphabet with a whitelist that admits everything and a blacklist that matches nothing in force (the lists are
  consulted for every datapoint, whatever its name looks like): nothing may change."""
  env.boot()
  import re
  from carbon.regexlist import WhiteList, BlackList
  bad = []
  n = 0
  extra = [('cpu.load;=oops', 1, 1.0), ('a;k', 2, 2.0), ('m;b=2;a=1', 3, 3.0), ('m{x="y"}', 4, 4.0)]
  try:
    for kind in ('line', 'pickle', 'udp'):
      for dp in SIGMA + extra:
        rig = wire.Rig(kind)
        WhiteList.regex_list = [re.compile('.*')]
        BlackList.regex_list = [re.compile('^never-sent$')]
        data = wire.pickle_frame([dp], 2) if kind == 'pickle' else wire.line(*dp)
        exc = rig.feed(data)
        got = list(rig.delivered)
        closing = rig.closing if kind != 'udp' else False
        rig.close()
        n += 1
        if exc is not None or closing or not same_log(got, expected([dp])):
          bad.append(('ingest-mismatch:' + kind, '%s listener with a whitelist (.*) and a blacklist (no match) in force: sent %r, delivered %r, '
                      'exception %r, closing %r' % (kind, dp, got, exc, closing),
                      {'kind': kind, 'sequence': [list(dp)], 'stream_hex': data.hex(), 'cuts': [], 'lists': True}))
  finally:
    WhiteList.regex_list = []
    BlackList.regex_list = []
  return n, bad[:2]


def frame_at_limit(limit):
  """A pickle frame of exactly PICKLE_RECEIVER_MAX_LENGTH bytes (the limit configured before the listener module is imported,
  as the daemons do) is a valid frame: its datapoint and the frames around it are delivered."""
  from . import c11
  st, tr, ex, bad = c11.configured_limit_case(limit)
  return [('frame-at-limit', what, dict(rep, kind='pickle-limit')) for key, what, rep in bad
          if rep['case'].startswith('frame of exactly')]


def sequences(ctx):
  L = ctx.pick(2, 3)
  seqs = []
  for k in range(1, L + 1):
    for t in itertools.product(range(len(SIGMA)), repeat=k):
      seqs.append([SIGMA[i] for i in t])
  return list(enumerate(seqs))


def run(ctx):
  env.boot()
  from .. import listenh
  listenh.run_in(ctx, ctx.pick(6, 8))
  un, ubad = core.pmap(udp_sizes, [0])[0]
  for key, what, rep in ubad:
    ctx.violation(key, what, rep)
  ctx.add(udp_datagram_size_cases=un)
  ln, lbad = core.pmap(with_lists, [0])[0]
  for key, what, rep in lbad:
    ctx.violation(key, what, rep)
  ctx.add(cases_with_lists_in_force=ln)
  limits = [64, 4096, 2 ** 20]
  for bad in core.pmap(frame_at_limit, limits, fresh=True):
    for key, what, rep in bad:
      ctx.violation(key, what, rep)
  ctx.add(frames_of_exactly_the_configured_limit=len(limits))
  seqs = core.seeded_order(sequences(ctx), ctx.seed)
  nsh = 64 if not ctx.thorough else 256
  res = core.pmap(shard, [(seqs[i::nsh], 2) for i in range(nsh)], chunksize=1)
  S = T = E = G = OK = 0
  for st, tr, ex, sg, okc, bad in res:
    S += st
    T += tr
    E += ex
    G += sg
    OK += okc
    for key, what, rep in bad:
      ctx.violation(key, what, rep)
  ctx.add(states=S, transitions=T, traces_validated_against_impl=E, sequences=len(seqs), streams_explored=G,
          cases_passed=OK, max_direct_cuts=2,
          rule='all sequences of <=%d datapoints over a 10-element alphabet x batchings x encoder variants; per TCP stream all '
               '(p,q) transitions of the segmentation state graph + all <=2-cut segmentations + byte-by-byte' % ctx.pick(2, 3))
  ctx.sample({'sequence': [list(x) for x in seqs[0][1]], 'line_stream_hex': case_streams(*seqs[0])[0][2].hex()})
  ctx.sample({'alphabet': [list(x) for x in SIGMA]})
  ctx.assumptions += ['one canonical receiver state per offset implies segmentation independence (induction over cut sets)',
                      'MIN_TIMESTAMP_RESOLUTION=0, empty white/blacklists']
  if not OK:
    raise core.HarnessError('C01: nothing was ingested correctly - harness broken')


def replay(path):
  body = json.load(open(path))
  rep = body['replay']
  if 'listener' in rep:
    from .. import listenh
    return listenh.replay(rep)
  if rep.get('lists'):
    n, bad = with_lists(0)
    print('oracle:', bad[0][1] if bad else 'holds')
    return 1 if bad else 0
  if rep['kind'] == 'pickle-limit':
    bad = frame_at_limit(rep['configured_limit'])
    print('oracle:', bad[0][1] if bad else 'holds')
    return 1 if bad else 0
  if rep['kind'] == 'udp':
    rig = wire.Rig('udp')
    for g in rep['datagrams']:
      print('datagram', bytes.fromhex(g), '->', rig.feed(bytes.fromhex(g)))
    print('delivered:', rig.delivered)
    want = expected([tuple(x) for x in rep['sequence']])
    ok = same_log(list(rig.delivered), want)
    print('oracle:', 'holds' if ok else 'VIOLATED (sent %r)' % (want,))
    return 0 if ok else 1
  stream = bytes.fromhex(rep['stream_hex'])
  seq = [(x[0],) + tuple(float(y) if isinstance(y, str) else y for y in x[1:]) for x in rep['sequence']]
  if rep.get('pause_at'):
    r = segx.run_with_pause(rep['kind'], stream, rep['pause_at'], rep.get('cuts') or [], rep.get('then', 'resume'))
    ok = same_log(list(r.sh['delivered']), expected(seq)) and r.exc is None
    print('paused at datapoint %d -> delivered %r' % (rep['pause_at'], list(r.sh['delivered'])))
    print('oracle:', 'holds' if ok else 'VIOLATED')
    return 0 if ok else 1
  r = segx.run_cuts(rep['kind'], stream, rep.get('cuts') or [])
  whole = segx.run_cuts(rep['kind'], stream, [])
  print('cuts %r -> %r' % (rep.get('cuts'), r.observable()))
  print('whole    -> %r' % (whole.observable(),))
  ok = r.observable() == whole.observable() and same_log(list(r.sh['delivered']), expected(seq)) and r.exc is None
  print('oracle:', 'holds' if ok else 'VIOLATED')
  return 0 if ok else 1
