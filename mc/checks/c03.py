"""C03 - the writer persists each drained datapoint exactly once or accounts for it."""
from .. import writerh

LEVEL = 'model_checking'
MANIFEST = {
  'engine': 'thrx',
  'technique': 'stateless model checking of the real writer loop against a storing thread with backend faults as '
               'enumerated data choice points (preemption bound x fault budget), event-log accounting oracle',
  'text': 'The real writeForever()/writeCachedDataPoints() runs on a writer thread against a storing thread; every '
          'exists/create/write call of the in-memory backend is a choice {ok, raise}. All executions with <=1 '
          'preemption and <=1 fault (thorough: 2 preemptions x 1 fault and 1 preemption x 2 faults) are run for create-rate limiting on/off and the write '
          'strategies; each drained batch must be followed by exactly one write of exactly its points under its '
          'own metric while the file exists, or be counted as a dropped create, or be reported as an error; '
          'counters must add up and nothing stored may vanish.',
  'note': 'Static partial-order reduction: only writer.py lines mentioning the cache/reactor/sleep are scheduling '
          'points (the others touch writer-local state or the backend double, which only the writer uses); the '
          'thorough tier re-runs with every writer line visible at preemption bound 1. Trusted: verifmem double. The reactor thread\'s instrumentation tick (real recordMetrics) races the writer: reported + residual counters must equal what was counted; an empty-named series; an update limit below 1/s.',
}

QUICK_STRATS = ('sorted', 'bucketmax', 'timesorted')
ALL_STRATS = ('sorted', 'max', 'naive', 'timesorted', 'bucketmax', 'random')


def base(strat, creates):
  return {'strategy': strat, 'max_creates': creates, 'files': ('a',), 'init': [('a', 1, 1.0)],
          # (the third series has the EMPTY name: the pickle listener accepts it and the feeder stores it as received)
          'reactor': [('store', 'b', 1, 2.0), ('store', 'a', 2, 3.0), ('store', '', 1, 4.0)],
          'passes': 2, 'faults': True, 'oracles': ('c03',)}


def jobs(ctx):
  out = []
  INF = float('inf')
  for strat in ctx.pick(QUICK_STRATS, ALL_STRATS):
    for creates in (INF, 1):
      if ctx.thorough:
        # (2 preemptions x 2 faults together is ~2M executions per job: the two deviations are deepened separately)
        out.append((base(strat, creates), (1, 2)))
        if strat in QUICK_STRATS:
          out.append((base(strat, creates), (2, 1)))
      else:
        out.append((base(strat, creates), (1, 1)))
      if ctx.thorough:
        out.append((dict(base(strat, creates), all_writer_lines=True), (1, 1)))
  # the instrumentation tick of the reactor thread reports and clears the counters while the writer thread counts
  # dropped creates and errors (create limit 1/min: the second new metric of a pass is a dropped create)
  for strat in ('sorted',) if not ctx.thorough else ('sorted', 'max'):
    rep = dict(base(strat, 1), reactor=[('store', 'b', 1, 2.0), ('store', 'c', 1, 4.0), ('report',), ('store', 'a', 2, 3.0)])
    out.append((rep, (ctx.pick(1, 2), 0)))
    out.append((dict(rep, reactor=[('store', 'b', 1, 2.0), ('report',), ('store', 'c', 1, 4.0), ('report',)]), (1, 1)))
  # an update limit below one per second (the bucket never holds a whole token: every update waits for its deficit)
  for strat in ('sorted',) if not ctx.thorough else ('sorted', 'timesorted'):
    out.append((dict(base(strat, INF), max_updates=0.5, see_buckets=True, line_pattern=r'cache|reactor|sleep|BUCKET|settings'), (1, 1)))
  if not ctx.thorough:
    for strat in ('max', 'naive', 'random'):
      out.append((base(strat, INF), (0, 1) if strat != 'random' else (0, 2)))
  return out


def run(ctx):
  writerh.run_jobs(ctx, jobs(ctx), 'C03', required=('write_ok', 'fault_injected', 'dropped_create',
                                                     'store_after_first_drain'))
  ctx.add(bounds={'preemptions_x_faults': ctx.pick('1x1', '2x1 and 1x2'), 'passes': 2, 'metrics': 3,
                  'create_rate_limit': ['off', '1/min (burst 1)']})
  ctx.assumptions += ['writer lines not mentioning cache/reactor/sleep are not scheduling points (thorough re-checks '
                      'with all lines at bound 1)', 'backend = in-memory verifmem plugin (whisper absent)']


def replay(path):
  return writerh.replay_schedule(path)
