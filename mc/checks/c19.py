"""C19 - new metrics get the first matching storage schema and aggregation policy."""
import itertools
import json
import os

from .. import core, env

LEVEL = 'exploration'
MANIFEST = {
  'engine': 'enumx',
  'technique': 'bounded-exhaustive enumeration of storage-schemas.conf / storage-aggregation.conf files (all ordered '
               'selections of sections from a pool) x metric names through the real reload functions and the real '
               'writer create path, against a first-match reference evaluator',
  'text': 'Every ordered selection of up to 3 (thorough 4) sections from a pool of 6 storage-schema sections '
          '(overlapping patterns, one without pattern, one without retentions, every unit suffix, non-divisible '
          'durations, multi-archive lists) and of up to 2 (3) sections from a pool of 5 aggregation sections is written '
          'to the scratch CONF_DIR, loaded by writer.reloadStorageSchemas()/reloadAggregationSchemas(), and a new metric '
          'matching zero, one or several sections is pushed through writeCachedDataPoints(); the arguments of '
          'database.create() must equal the reference (first match in file order, documented defaults).',
  'note': 'Backend = in-memory verifmem plugin (whisper absent, so whisper.validateArchiveList is not exercised). '
          'Invalid retention strings (which make carbon exit) and out-of-range xFilesFactor are outside the pools. A 16-pattern regex pool (alternations, groups, classes, flags, look-ahead) is run as first section before a catch-all in both files. A tagged name whose bare path is matched by end-anchored patterns.',
}

UNITS = {'s': 1, 'm': 60, 'h': 3600, 'd': 86400, 'w': 604800, 'y': 31536000}

SCHEMA_POOL = [
  ('alpha', {'pattern': r'^a\.', 'retentions': '10s:6h,1m:7d'}),
  ('beta', {'pattern': r'\.b$', 'retentions': '60:1440'}),
  ('gamma', {'pattern': r'^a', 'retentions': '1h:2w,1d:1y'}),
  ('nopattern', {'retentions': '1:1'}),
  ('noretention', {'pattern': r'b'}),
  ('delta', {'pattern': r'c|a\.b', 'retentions': '7s:100s,2m:3h'}),
]
AGG_POOL = [
  ('min', {'pattern': r'\.b$', 'xFilesFactor': '0.1', 'aggregationMethod': 'min'}),
  ('all_a', {'pattern': r'^a', 'xFilesFactor': '1', 'aggregationMethod': 'sum'}),
  ('only_xff', {'pattern': r'c', 'xFilesFactor': '0'}),
  ('only_method', {'pattern': r'^a\.b', 'aggregationMethod': 'last'}),
  ('nopattern', {'xFilesFactor': '0.3', 'aggregationMethod': 'max'}),
]
NAMES = ['a.b', 'a.x', 'x.b', 'c', 'zzz', 'ab', 'm;k=v', 'a.b;k=v']
# the pattern is a regular expression searched in the metric name: shapes that a shortcut around the regex engine
# (literal-prefix tests, joined alternations, anchoring by hand) gets wrong
PATTERN_POOL = [r'^a\.|^x\.', r'^zz|\.b$', r'^zzz|c', r'^(a|x)\.', r'^ab?$', r'^[ax]\.', r'^a\.b$', r'a|^c', r'(?i)^A\.', r'^(?!a)',
                r'^a\.*', r'^a.', r'b', r'^$', r'.*', r'^x\.b|^a\.x|^c$',
                # series selected by tag: the value starts with ';' or contains blank + ';' / '#' (comment characters of INI dialects)
                r';k=v(;|$)', r'^ab ;x$|;k=', r'b #x|^c$']


def render(sections):
  out = []
  for name, opts in sections:
    out.append('[%s]' % name)
    for k, v in opts.items():
      out.append('%s = %s' % (k, v))
    out.append('')
  return '\n'.join(out) + '\n'


# ---- reference --------------------------------------------------------------------------------------------------
def ref_retention(s):
  prec, pts = s.strip().split(':')

  def seconds(tok):
    if tok.isdigit():
      return int(tok), True
    num = ''.join(ch for ch in tok if ch.isdigit())
    return int(num) * UNITS[tok[len(num):]], False
  p, _ = seconds(prec)
  if pts.isdigit():
    return (p, int(pts))
  dur, _ = seconds(pts)
  return (p, dur // p)


def ref_schema(sections, metric):
  import re
  for name, opts in sections:
    if 'pattern' not in opts or 'retentions' not in opts:
      continue
    if re.search(opts['pattern'], metric):
      return [ref_retention(r) for r in opts['retentions'].split(',')]
  return [(60, 10080)]


def ref_agg(sections, metric):
  import re
  for name, opts in sections:
    if 'pattern' not in opts:
      continue
    if re.search(opts['pattern'], metric):
      xff = float(opts['xFilesFactor']) if 'xFilesFactor' in opts else None
      return (xff, opts.get('aggregationMethod'))
  return (None, None)


# ---- implementation side -------------------------------------------------------------------------------------------
class Writer(object):
  _inst = {}

  @classmethod
  def get(cls):
    if cls._inst.get('pid') != os.getpid():
      cls._inst.clear()
      cls._inst['pid'] = os.getpid()
      cls._inst['w'] = cls()
    return cls._inst['w']

  def __init__(self):
    settings = env.boot()
    env.private_conf()
    env.reset_state()
    settings['MAX_CREATES_PER_MINUTE'] = float('inf')
    settings['MAX_UPDATES_PER_SECOND'] = float('inf')
    settings['CACHE_WRITE_STRATEGY'] = 'sorted'
    settings['MAX_CACHE_SIZE'] = float('inf')
    env.apply_daemon_cache_limits(settings)
    import carbon.writer
    import carbon.storage
    import importlib
    from carbon import state
    from ..doubles.verifmem import VerifMemDatabase
    self.db = VerifMemDatabase()
    state.database = self.db
    importlib.reload(carbon.writer)     # rate-limit buckets off for this process
    self.writer = carbon.writer
    self.conf = settings['CONF_DIR']
    if os.path.dirname(carbon.storage.STORAGE_SCHEMAS_CONFIG) != self.conf:
      raise core.HarnessError('carbon.storage was imported with another CONF_DIR')
    self.cache = carbon.writer.MetricCache()
    # the daemon's own service object: its two periodic reload tasks are what re-reads the files in a running daemon
    self.service = carbon.writer.WriterService()
    self.loads = 0

  MTIMES = (1000000000 + 1000, 1000000000 + 500, 1000000000 + 500, 1000000000 + 2000, 1000000000 + 100)

  def load(self, schema_sections, agg_sections):
    with open(os.path.join(self.conf, 'storage-schemas.conf'), 'w') as f:
      f.write(render(schema_sections))
    p = os.path.join(self.conf, 'storage-aggregation.conf')
    if agg_sections is None:
      if os.path.exists(p):
        os.unlink(p)
    else:
      with open(p, 'w') as f:
        f.write(render(agg_sections))
    # file times as deployments produce them: not monotonic (a rollback restores an older file, cp -p / rsync -t keep times,
    # two edits can share a timestamp) - the content on disk is what counts
    mt = self.MTIMES[self.loads % len(self.MTIMES)]
    self.loads += 1
    for q in (os.path.join(self.conf, 'storage-schemas.conf'), p):
      if os.path.exists(q):
        os.utime(q, (mt, mt))
    for task in (self.service.storage_reload_task, self.service.aggregation_reload_task):
      task.f(*task.a, **task.kw)            # one tick of the service's 60 s reload task

  def create_args(self, metric):
    self.db.files.clear()
    del self.db.log[:]
    self.cache.store(metric, (1, 1.0))
    self.writer.writeCachedDataPoints()
    creates = [e for e in self.db.log if e[0] == 'create']
    if len(creates) != 1 or creates[0][1] != metric:
      return ('bad', creates)
    e = creates[0]
    try:
      rets = [tuple(a) for a in e[4]]
    except TypeError:
      rets = [repr(a) for a in e[4]]       # not (secondsPerPoint, points) pairs at all
    return ('ok', rets, (e[5], e[6]))


def shard(arg):
  cases = arg
  w = Writer()
  n = 0
  sigs = set()
  bad = []
  for schema_sections, agg_sections in cases:
    w.load(schema_sections, agg_sections)
    for metric in NAMES:
      n += 1
      got = w.create_args(metric)
      want_ret = ref_schema(schema_sections, metric)
      want_agg = ref_agg(agg_sections or [], metric)
      rep = {'schemas': schema_sections, 'aggregation': agg_sections, 'metric': metric}
      if got[0] != 'ok':
        if len(bad) < 3:
          bad.append(('no-create', 'metric %r: expected one create(), backend saw %r' % (metric, got[1]), rep))
        continue
      if got[1] != want_ret:
        if len(bad) < 3:
          bad.append(('retentions', 'metric %r created with retentions %r, first matching section gives %r | sections %r' % (
            metric, got[1], want_ret, [s[0] for s in schema_sections]), rep))
        continue
      if got[2] != want_agg:
        if len(bad) < 3:
          bad.append(('aggregation', 'metric %r created with (xff, method) %r, first matching section gives %r | sections %r' % (
            metric, got[2], want_agg, [s[0] for s in (agg_sections or [])]), rep))
        continue
      sigs.add((tuple(s[0] for s in schema_sections), tuple(s[0] for s in (agg_sections or [])), metric))
  return n, len(sigs), bad


# ---- the periodic reload racing with the create loop (thrx) -------------------------------------------------------
class ReloadRace(object):
  """Writer thread: writeCachedDataPoints() creating one new metric.  Reactor thread: the 60 s reload tasks
  (reloadStorageSchemas / reloadAggregationSchemas) after the files were edited.  Whatever the interleaving,
  the metric must be created per the OLD files or per the NEW files (each lookup is one or the other)."""
  horizon = 6000
  opcode_funcs = ()

  def __init__(self, p):
    self.p = p

  def visible(self):
    from .. import writerh
    wpath = os.path.join(env.REPO, 'lib', 'carbon', 'writer.py')
    funcs = {'writeCachedDataPoints', 'reloadStorageSchemas', 'reloadAggregationSchemas'}
    return {wpath: {'funcs': funcs, 'lines': writerh.visible_lines(wpath, funcs, r'SCHEMAS|schema|Schemas')}}

  def setup(self, s):
    from .. import thrx
    p = self.p
    self.w = Writer.get()
    self.w.load(p['old'][0], p['old'][1])
    # the operator edits the files; the next reload tick will pick them up
    with open(os.path.join(self.w.conf, 'storage-schemas.conf'), 'w') as f:
      f.write(render(p['new'][0]))
    with open(os.path.join(self.w.conf, 'storage-aggregation.conf'), 'w') as f:
      f.write(render(p['new'][1]))
    self.w.db.files.clear()
    del self.w.db.log[:]
    self.lock = thrx.replace_locks(self.w.cache, s)
    self.w.cache.store(p['metric'], (1, 1.0))
    self.exc = []
    s.spawn('writer', self.writer_body)
    s.spawn('reactor', self.reactor_body)
    self.sched = s

  def teardown(self, s):
    import threading
    self.w.cache.lock = threading.Lock()
    self.w.cache.clear()
    self.w.cache.size = 0
    self.w.cache.new_metrics.clear()

  def writer_body(self):
    try:
      self.w.writer.writeCachedDataPoints()
    except Exception as e:   # noqa
      self.exc.append(repr(e))

  def reactor_body(self):
    self.sched.point(('reload-tick',))
    try:
      self.w.writer.reloadStorageSchemas()
      self.w.writer.reloadAggregationSchemas()
    except Exception as e:   # noqa
      self.exc.append(repr(e))

  def outcome(self, s):
    return (tuple((e[0], e[1], repr(e[4:])) for e in self.w.db.log if e[0] == 'create'), tuple(self.exc))

  def obligations(self, s):
    return {}

  def verdict(self, s):
    p = self.p
    if self.exc:
      return ('reload-race:exception', 'raised %s' % self.exc[0])
    creates = [e for e in self.w.db.log if e[0] == 'create']
    if len(creates) != 1:
      return ('reload-race:no-create', 'expected one create(), backend saw %r' % (creates,))
    e = creates[0]
    try:
      got_ret = [tuple(a) for a in e[4]]
    except TypeError:
      got_ret = [repr(a) for a in e[4]]
    got_agg = (e[5], e[6])
    ok_ret = [ref_schema(p['old'][0], p['metric']), ref_schema(p['new'][0], p['metric'])]
    ok_agg = [ref_agg(p['old'][1], p['metric']), ref_agg(p['new'][1], p['metric'])]
    if got_ret not in ok_ret:
      return ('reload-race:retentions', 'metric %r created with retentions %r while a reload ran; the old file gives %r, the new file %r'
              % (p['metric'], got_ret, ok_ret[0], ok_ret[1]))
    if got_agg not in ok_agg:
      return ('reload-race:aggregation', 'metric %r created with (xff, method) %r while a reload ran; the old file gives %r, the new '
              'file %r' % (p['metric'], got_agg, ok_agg[0], ok_agg[1]))
    return None


def make_race(p):
  return ReloadRace(p)


def race_job(arg):
  from .. import thrx
  p, bounds = arg
  env.boot()
  Writer.get()
  return thrx.explore(make_race, p, bounds, fanout=10 ** 9)


def race_params():
  S, A = SCHEMA_POOL, AGG_POOL
  out = []
  pairs = [
    ([S[1], S[0]], [S[2]]),            # a leading non-matching section removed, another matching one takes over
    ([S[0]], [S[5], S[0], S[2]]),       # sections inserted above
    ([S[1], S[5], S[0]], [S[0], S[5]]),
    ([S[2], S[0]], [S[0], S[2]]),       # reordered
    ([S[3], S[4], S[0]], [S[2]]),       # ignored sections in front
  ]
  aggs = [([A[0], A[1]], [A[1]]), ([A[1]], [A[3], A[0], A[1]]), ([A[4], A[0], A[1]], [A[1], A[0]])]
  for i, (so, sn) in enumerate(pairs):
    ao, an = aggs[i % len(aggs)]
    for metric in ('a.b', 'a.x'):
      out.append({'old': (so, ao), 'new': (sn, an), 'metric': metric})
  return out


def cases(ctx):
  ks = ctx.pick(3, 4)
  ka = ctx.pick(2, 3)
  schema_files = [list(sel) for k in range(1, ks + 1) for sel in itertools.permutations(SCHEMA_POOL, k)]
  agg_files = [None] + [list(sel) for k in range(1, ka + 1) for sel in itertools.permutations(AGG_POOL, k)]
  out = []
  fixed_agg = [AGG_POOL[1], AGG_POOL[0]]
  fixed_schema = [SCHEMA_POOL[5], SCHEMA_POOL[0]]
  for sf in schema_files:
    out.append((sf, fixed_agg))
  for af in agg_files:
    out.append((fixed_schema, af))
  # a small genuine cross product
  for sf in schema_files[:: max(1, len(schema_files) // 12)]:
    for af in agg_files[:: max(1, len(agg_files) // 6)]:
      out.append((sf, af))
  # the pattern language: each pool pattern first, a catch-all section behind it
  for pat in PATTERN_POOL:
    out.append(([('p', {'pattern': pat, 'retentions': '7s:100s'}), ('rest', {'pattern': '.*', 'retentions': '1h:2w'})],
                [('p', {'pattern': pat, 'xFilesFactor': '0.25', 'aggregationMethod': 'min'}),
                 ('rest', {'pattern': '.*', 'xFilesFactor': '0.75', 'aggregationMethod': 'max'})]))
  return out


def retention_sweep(punit):
  """Retention arithmetic through the real Archive.fromString: every precision 1..60 (and 1..3600 in seconds) in the
  given unit x every duration 1..60 in every unit, plus bare point counts, against integer arithmetic."""
  env.boot()
  env.private_conf()
  from carbon.storage import Archive
  bad = []
  n = 0
  precs = list(range(1, 61)) + ([90, 120, 300, 600, 900, 1800, 3600] if punit in ('s', '') else [])
  for pv in precs:
    ps = '%d%s' % (pv, punit)
    psec = pv * UNITS.get(punit or 's')
    for dunit in ('', 's', 'm', 'h', 'd', 'w', 'y'):
      for dv in list(range(1, 61)) + [100, 365, 1440]:
        text = '%s:%d%s' % (ps, dv, dunit)
        want = (psec, dv if dunit == '' else (dv * UNITS[dunit]) // psec)
        n += 1
        try:
          a = Archive.fromString(text)
          got = (a.secondsPerPoint, a.points)
        except Exception as e:   # noqa
          got = 'raised %r' % (e,)
        if got != want and len(bad) < 3:
          bad.append(('retention-arithmetic', 'retention %r read as %r; seconds-per-point and duration//precision give %r' % (text, got, want),
                      {'retention': text}))
  return n, bad


def run(ctx):
  env.boot()
  rn = 0
  for n, bad in core.pmap(retention_sweep, ['', 's', 'm', 'h', 'd', 'w', 'y'], fresh=True):
    rn += n
    for key, what, rep in bad:
      ctx.violation(key, what, rep)
  ctx.add(retention_strings=rn)
  cs = core.seeded_order(cases(ctx), ctx.seed)
  nsh = 32
  res = core.pmap(shard, [cs[i::nsh] for i in range(nsh)], fresh=True)
  n = distinct = 0
  for cnt, d, bad in res:
    n += cnt
    distinct += d
    for key, what, rep in bad:
      ctx.violation(key, what, rep)
  # self-check of the reference on the documented examples
  assert ref_retention('10s:6h') == (10, 2160) and ref_retention('60:1440') == (60, 1440) and ref_retention('7s:100s') == (7, 14)
  assert ref_retention('1d:1y') == (86400, 365) and ref_retention('1h:2w') == (3600, 336)
  rps = race_params()
  rres = core.pmap(race_job, [(p, (ctx.pick(1, 2), 0)) for p in rps], fresh=True)
  rexec = 0
  for p, st in zip(rps, rres):
    rexec += st['executions']
    for key, what, rep in st['violations']:
      ctx.violation(key, '%s | old schema sections %r new %r' % (what, [x[0] for x in p['old'][0]], [x[0] for x in p['new'][0]]),
                    {'race': p, 'choices': rep['choices']})
  n += rexec
  ctx.add(evaluations=n, distinct_nontrivial=distinct, exhaustive=True, files=len(cs), reload_race_executions=rexec,
          rule='ordered selections of <=%d of 6 schema sections (x a fixed aggregation file), of <=%d of 5 aggregation sections '
               '(x a fixed schema file) and a small cross product, x 6 metric names; distinct_nontrivial = distinct '
               '(schema section order, aggregation section order, metric) cases that passed' % (ctx.pick(3, 4), ctx.pick(2, 3)))
  ctx.sample({'storage-schemas.conf': render(cs[0][0]), 'storage-aggregation.conf': render(cs[0][1] or []), 'metric': 'a.b',
              'expected': [ref_schema(cs[0][0], 'a.b'), ref_agg(cs[0][1] or [], 'a.b')]})
  ctx.assumptions += ['section names unique; no invalid retention strings (they make carbon exit)']


def replay(path):
  body = json.load(open(path))
  rep = body['replay']
  if 'retention' in rep:
    env.boot()
    env.private_conf()
    from carbon.storage import Archive
    a = Archive.fromString(rep['retention'])
    print('retention %r -> secondsPerPoint=%r points=%r' % (rep['retention'], a.secondsPerPoint, a.points))
    prec, dur = rep['retention'].split(':')
    import re
    def secs(x):
      m = re.match(r'^(\d+)([a-z]*)$', x)
      return int(m.group(1)), m.group(2)
    pv, pu = secs(prec)
    dv, du = secs(dur)
    want = (pv * UNITS.get(pu or 's'), dv if du == '' else dv * UNITS[du] // (pv * UNITS.get(pu or 's')))
    ok = (a.secondsPerPoint, a.points) == want
    print('oracle:', 'holds' if ok else 'VIOLATED (expected %r)' % (want,))
    return 0 if ok else 1
  if 'race' in rep:
    from .. import thrx
    p = rep['race']
    p['old'] = tuple([(n, dict(o)) for n, o in part] for part in p['old'])
    p['new'] = tuple([(n, dict(o)) for n, o in part] for part in p['new'])
    env.boot()
    Writer.get()
    s, h = thrx.run_one(make_race, p, rep['choices'])
    v = h.verdict(s)
    print('creates:', [e for e in h.w.db.log if e[0] == 'create'])
    print('oracle:', v or 'holds')
    return 1 if v else 0
  ss = [(n, dict(o)) for n, o in rep['schemas']]
  ag = [(n, dict(o)) for n, o in rep['aggregation']] if rep['aggregation'] is not None else None
  w = Writer()
  w.load(ss, ag)
  got = w.create_args(rep['metric'])
  want = ('ok', ref_schema(ss, rep['metric']), ref_agg(ag or [], rep['metric']))
  print(render(ss))
  print(render(ag or []))
  print('metric %r: create() got %r, reference %r' % (rep['metric'], got, want))
  return 0 if got == want else 1
