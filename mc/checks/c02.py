"""C02 - the cache neither loses nor duplicates datapoints; last write wins; size exact.

thrx: reactor thread (stores via CacheFeedingProcessor, queries via CacheManagementHandler) against
the writer thread (drain_metric) on the real MetricCache(), all six strategies, iterative preemption
bounding; oracle = brute-force linearizability against a plain dict + size invariant at every
scheduling point at which the lock is free.  Sequential histories: see mc/cacheseq.py.
"""
from .. import cacheh, cacheseq

LEVEL = 'model_checking'
MANIFEST = {
  'engine': 'thrx',
  'technique': 'stateless model checking of real thread interleavings (line granularity, iterative '
               'preemption bounding) + BFS over sequential store/drain/query histories, linearizability '
               'oracle against a dict',
  'text': 'Every interleaving of the storing and the draining thread with at most N preemptions (N=2 on the '
          'key programs, 1 on the covering program set; thorough: 3/2 and bytecode granularity with 1) is '
          'executed on the real cache for all six strategies; each execution must linearize against a dict '
          'reference (drain results, query results, final content) and cache.size must equal the number of '
          'held datapoints whenever the lock is free. Exhaustive within the stated programs and bounds.',
  'note': 'Trusted: the explorer (self-tested), the dict reference, CPython line-event tracing. Not covered: '
          'more preemptions than the completed bound, alphabets beyond 2-3 metrics x 2 timestamps, randomised '
          'schedules (another technique family). Limits come from the real start-up path; thrx jobs use sub-second timestamps sharing one second, arriving newest-first; the sequential search lets another buffer raise the shared cacheFull event and uses timestamps ahead of the clock.',
}

STRATEGIES = ('sorted', 'max', 'naive', 'timesorted', 'bucketmax', 'random')
MENU = [('store', 'm', 1), ('store', 'm', 2), ('store', 'n', 1), ('query', 'm'), ('bulk', ('m', 'n'))]
INITS = [[], [('m', 1, -1.0)], [('m', 1, -1.0), ('n', 1, -2.0), ('n', 2, -3.0)]]
KEY_PROGRAMS = [
  ([('m', 1, -1.0)], [('store', 'm', 1, 1.0), ('store', 'm', 1, 2.0), ('store', 'n', 1, 3.0)]),
  ([('m', 1, -1.0)], [('store', 'm', 2, 1.0), ('query', 'm'), ('store', 'm', 1, 3.0)]),
  ([('m', 1, -1.0)], [('store', 'n', 1, 1.0), ('store', 'm', 2, 2.0), ('bulk', ('m', 'n'))]),
  ([], [('store', 'm', 1, 1.0), ('store', 'm', 2, 2.0), ('store', 'm', 1, 3.0)]),
]


def jobs(ctx):
  out = []
  deep = ctx.pick(2, 3)
  wide = ctx.pick(1, 2)
  for strat in STRATEGIES:
    fb = 1 if strat == 'random' else 0
    for init, prog in KEY_PROGRAMS[:ctx.pick(2, 4)]:
      out.append(({'strategy': strat, 'init': init, 'reactor': prog, 'writer': 2, 'oracles': ('c02',)}, (deep, fb)))
    for prog in cacheh.covering_programs(MENU, ctx.pick(3, 4)):
      for init in INITS:
        out.append(({'strategy': strat, 'init': init, 'reactor': prog, 'writer': ctx.pick(2, 3),
                     'oracles': ('c02',)}, (wide, fb)))
    # a bounded cache under flow control: the fullness / space-available paths also touch `size`
    out.append(({'strategy': strat, 'init': [('m', 1, -1.0)], 'max_cache': 2, 'flow': True,
                 'reactor': [('store', 'n', 1, 1.0), ('store', 'm', 2, 2.0), ('store', 'o', 1, 3.0)], 'writer': 2,
                 'oracles': ('c02',)}, (ctx.pick(1, 2), fb)))
    # ... and one metric holding everything, so that a single drain takes the cache from full to empty
    # (non-initial state: the cache starts full, with the cache-too-full flag already raised)
    out.append(({'strategy': strat, 'init': [('m', 1, -1.0), ('m', 2, -2.0), ('m', 3, -3.0)], 'max_cache': 2, 'flow': True,
                 'reactor': [('store', 'n', 1, 1.0), ('store', 'n', 2, 2.0)], 'writer': 2,
                 'oracles': ('c02',)}, (ctx.pick(1, 2), fb)))
    if ctx.thorough:
      for init, prog in KEY_PROGRAMS[:2]:
        out.append(({'strategy': strat, 'init': init, 'reactor': prog, 'writer': 2, 'oracles': ('c02',),
                     'opcode': ('store', 'pop', '_check_available_space', 'drain_metric')}, (1, fb)))
  return out


# The series called 'm' in the programs is really sent as 'm;x': a name that violates the tag rules (C18: rejected by the
# parser, stored exactly as received).  Every store AND every cache query for it goes through the real name handling.
RENAME = {'m': 'm;x'}


def rename(x):
  if isinstance(x, str):
    return RENAME.get(x, x)
  if isinstance(x, (list, tuple)):
    return type(x)(rename(y) for y in x)
  return x


def run(ctx):
  js = [(dict(p, init=rename(p.get('init', [])), reactor=rename(p['reactor'])), b) for p, b in jobs(ctx)]
  cacheh.run_jobs(ctx, js, 'C02')
  cacheseq.run(ctx, oracles=('c02',), depth=ctx.pick(5, 7), strategies=STRATEGIES, max_cache=None, metrics=('m;x', 'n', 'o'))
  ctx.add(bounds={'preemptions_key_programs': ctx.pick(2, 3), 'preemptions_covering_programs': ctx.pick(1, 2),
                  'opcode_granularity_preemptions': ctx.pick(0, 1), 'program_length': ctx.pick(3, 4),
                  'drains': ctx.pick(2, 3), 'strategies': list(STRATEGIES)})
  ctx.assumptions += ['reactor thread and writer thread are the only threads touching the cache (as in production)',
                      'scheduling points: every source line of carbon/cache.py and of CacheManagementHandler.'
                      'stringReceived, lock acquisitions, op boundaries']


def replay(path):
  import json
  body = json.load(open(path))
  if body['replay'].get('engine') == 'evx-cacheseq':
    return cacheseq.replay(body)
  return cacheh.replay_schedule(path)
