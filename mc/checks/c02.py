"""C02 - the cache neither loses nor duplicates datapoints; last write wins; size exact.

thrx: reactor thread (stores via CacheFeedingProcessor, queries via CacheManagementHandler) against
the writer thread (drain_metric) on the real MetricCache(), all six strategies, iterative preemption
bounding; oracle = brute-force linearizability against a plain dict + size invariant at every
scheduling point at which the lock is free.  Sequential histories: see mc/cacheseq.py.
"""
import os

from .. import cacheh, cacheseq, core, env, thrx

LEVEL = 'model_checking'
MANIFEST = {
  'engine': 'thrx',
  'technique': 'stateless model checking of real thread interleavings (line granularity, iterative '
               'preemption bounding) + BFS over sequential store/drain/query histories, linearizability '
               'oracle against a dict',
  'text': 'Every interleaving of the storing and the draining thread with at most N preemptions (N=2 on the '
          'key programs, 1 on the covering program set; thorough: 3/2 and bytecode granularity with 1) is '
          'executed on the real cache for all six strategies; each execution must linearize against a dict '
          'reference (drain results, query results, final content) and cache.size must equal the number of '
          'held datapoints whenever the lock is free. Exhaustive within the stated programs and bounds.',
  'note': 'Trusted: the explorer (self-tested), the dict reference, CPython line-event tracing. Not covered: '
          'more preemptions than the completed bound, alphabets beyond 2-3 metrics x 2 timestamps, randomised '
          'schedules (another technique family). Limits come from the real start-up path; thrx jobs use sub-second timestamps sharing one second, arriving newest-first; the sequential search lets another buffer raise the shared cacheFull event and uses timestamps ahead of the clock. The value alphabet contains 0.0 (falsy values are datapoints too); which stored values are zero is part of the canonical state.',
}

STRATEGIES = ('sorted', 'max', 'naive', 'timesorted', 'bucketmax', 'random')
MENU = [('store', 'm', 1), ('store', 'm', 2), ('store', 'n', 1), ('query', 'm'), ('bulk', ('m', 'n'))]
INITS = [[], [('m', 1, -1.0)], [('m', 1, -1.0), ('n', 1, -2.0), ('n', 2, -3.0)]]
KEY_PROGRAMS = [
  ([('m', 1, 0.0)], [('store', 'm', 1, 1.0), ('store', 'm', 1, 0.0), ('store', 'n', 1, 3.0)]),
  ([('m', 1, -1.0)], [('store', 'm', 2, 1.0), ('query', 'm'), ('store', 'm', 1, 3.0)]),
  ([('m', 1, -1.0)], [('store', 'n', 1, 1.0), ('store', 'm', 2, 2.0), ('bulk', ('m', 'n'))]),
  ([], [('store', 'm', 1, 1.0), ('store', 'm', 2, 2.0), ('store', 'm', 1, 3.0)]),
]


def jobs(ctx):
  out = []
  deep = ctx.pick(2, 3)
  wide = ctx.pick(1, 2)
  for strat in STRATEGIES:
    fb = 1 if strat == 'random' else 0
    for init, prog in KEY_PROGRAMS[:ctx.pick(2, 4)]:
      out.append(({'strategy': strat, 'init': init, 'reactor': prog, 'writer': 2, 'oracles': ('c02',)}, (deep, fb)))
    for prog in cacheh.covering_programs(MENU, ctx.pick(3, 4)):
      for init in INITS:
        out.append(({'strategy': strat, 'init': init, 'reactor': prog, 'writer': ctx.pick(2, 3),
                     'oracles': ('c02',)}, (wide, fb)))
    # a bounded cache under flow control: the fullness / space-available paths also touch `size`
    out.append(({'strategy': strat, 'init': [('m', 1, -1.0)], 'max_cache': 2, 'flow': True,
                 'reactor': [('store', 'n', 1, 1.0), ('store', 'm', 2, 2.0), ('store', 'o', 1, 3.0)], 'writer': 2,
                 'oracles': ('c02',)}, (ctx.pick(1, 2), fb)))
    # ... and one metric holding everything, so that a single drain takes the cache from full to empty
    # (non-initial state: the cache starts full, with the cache-too-full flag already raised)
    out.append(({'strategy': strat, 'init': [('m', 1, -1.0), ('m', 2, -2.0), ('m', 3, -3.0)], 'max_cache': 2, 'flow': True,
                 'reactor': [('store', 'n', 1, 1.0), ('store', 'n', 2, 2.0)], 'writer': 2,
                 'oracles': ('c02',)}, (ctx.pick(1, 2), fb)))
    if ctx.thorough:
      for init, prog in KEY_PROGRAMS[:2]:
        out.append(({'strategy': strat, 'init': init, 'reactor': prog, 'writer': 2, 'oracles': ('c02',),
                     'opcode': ('store', 'pop', '_check_available_space', 'drain_metric')}, (1, fb)))
  return out


# ---- start-up: who creates the cache ---------------------------------------------------------------------------------------
class StartupRace(thrx.Harness):
  """The very first datapoint against the writer thread's very first pass.  As in the daemon, the pipeline (and with it
  the feeder, CacheFeedingProcessor) is built on the main thread before either thread runs; from then on the reactor
  thread feeds datapoints and the writer thread does what writeCachedDataPoints() does first: MetricCache() and a drain.
  Whatever the interleaving, both threads must be talking about ONE cache: every stored datapoint is in the cache the
  daemon ends up with, or was handed out by a drain."""
  horizon = 4000

  def __init__(self, p):
    self.p = p

  def visible(self):
    return {os.path.join(env.REPO, 'lib', 'carbon', 'cache.py'): None}

  def setup(self, s):
    p = self.p
    settings = env.boot()
    env.reset_state()
    settings['CACHE_WRITE_STRATEGY'] = p['strategy']
    settings['MAX_CACHE_SIZE'] = float('inf')
    settings['USE_FLOW_CONTROL'] = False
    settings['MIN_TIMESTAMP_LAG'] = 0
    env.apply_daemon_cache_limits(settings)
    import carbon.cache
    self.mod = carbon.cache
    carbon.cache._Cache = None

    class SchedThreading(object):     # locks the cache creates for itself must be the scheduler's
      @staticmethod
      def Lock():
        return thrx.SchedLock(s)
      RLock = Lock
    self.saved = (carbon.cache.threading, carbon.cache.time)
    carbon.cache.threading = SchedThreading
    carbon.cache.time = cacheh.VTime(s)
    self.proc = carbon.cache.CacheFeedingProcessor()
    self.drained = []
    self.exc = []
    self.sched = s
    s.spawn('reactor', self.reactor_body)
    s.spawn('writer', self.writer_body)

  def teardown(self, s):
    final = self.mod._Cache          # the cache the daemon ended up with (the verdict is computed after teardown)
    self.held = sorted((m, ts, v) for m, q in (dict.items(final) if final is not None else ()) for ts, v in q.items())
    self.mod.threading, self.mod.time = self.saved
    self.mod._Cache = None

  def reactor_body(self):
    for m, ts, v in self.p['stores']:
      self.sched.point(('op', 'store', m, ts))
      try:
        self.proc.process(m, (ts, v))
      except thrx.Abort:
        raise
      except Exception as e:   # noqa
        self.exc.append('store raised %r' % (e,))

  def writer_body(self):
    for _ in range(self.p.get('drains', 2)):
      self.sched.point(('op', 'drain'))
      try:
        m, dps = self.mod.MetricCache().drain_metric()
      except thrx.Abort:
        raise
      except Exception as e:   # noqa
        self.exc.append('drain raised %r' % (e,))
        continue
      if m is not None:
        self.drained.extend((m, ts, v) for ts, v in dps)

  def outcome(self, s):
    return (tuple(self.drained), tuple(self.exc))

  def verdict(self, s):
    if s.horizon_hit or s.deadlock:
      return None
    if self.exc:
      return ('exception:startup', self.exc[0])
    held = self.held
    want = sorted(self.p['stores'])
    got = sorted(held + self.drained)
    if got != want:
      return ('conservation:startup', 'stored %r; the daemon\'s cache holds %r and the writer drained %r: %r vanished (the threads did not '
              'share one cache)' % (want, held, self.drained, [x for x in want if x not in got]))
    return None


def make_startup(p):
  return StartupRace(p)


def startup_job(arg):
  p, bounds = arg
  env.boot()
  return thrx.explore(make_startup, p, bounds, fanout=10 ** 9)


# The series called 'm' in the programs is really sent as 'm;x': a name that violates the tag rules (C18: rejected by the
# parser, stored exactly as received).  Every store AND every cache query for it goes through the real name handling.
RENAME = {'m': 'm;x'}


def rename(x):
  if isinstance(x, str):
    return RENAME.get(x, x)
  if isinstance(x, (list, tuple)):
    return type(x)(rename(y) for y in x)
  return x


def run(ctx):
  sjobs = [({'strategy': st, 'stores': [('m', 1.5, 1.0), ('n', 1.5, 2.0)], 'drains': 2}, (ctx.pick(2, 3), 1 if st == 'random' else 0))
           for st in (STRATEGIES if ctx.thorough else ('sorted', 'max', 'naive'))]
  sexec = 0
  for (p, b), st in zip(sjobs, core.pmap(startup_job, sjobs, fresh=True)):
    sexec += st['executions']
    for key, what, rep in st['violations']:
      ctx.violation(key, '%s | start-up race, strategy=%s' % (what, p['strategy']), {'startup': p, 'choices': rep['choices']})
  ctx.add(startup_race_executions=sexec)
  js = [(dict(p, init=rename(p.get('init', [])), reactor=rename(p['reactor'])), b) for p, b in jobs(ctx)]
  cacheh.run_jobs(ctx, js, 'C02')
  cacheseq.run(ctx, oracles=('c02',), depth=ctx.pick(5, 7), strategies=STRATEGIES, max_cache=None, metrics=('m;x', 'n', 'o'))
  ctx.add(bounds={'preemptions_key_programs': ctx.pick(2, 3), 'preemptions_covering_programs': ctx.pick(1, 2),
                  'opcode_granularity_preemptions': ctx.pick(0, 1), 'program_length': ctx.pick(3, 4),
                  'drains': ctx.pick(2, 3), 'strategies': list(STRATEGIES)})
  ctx.assumptions += ['reactor thread and writer thread are the only threads touching the cache (as in production)',
                      'scheduling points: every source line of carbon/cache.py and of CacheManagementHandler.'
                      'stringReceived, lock acquisitions, op boundaries']


def replay(path):
  import json
  body = json.load(open(path))
  if body['replay'].get('engine') == 'evx-cacheseq':
    return cacheseq.replay(body)
  if 'startup' in body['replay']:
    env.boot()
    sch, h = thrx.run_one(make_startup, body['replay']['startup'], body['replay']['choices'])
    v = h.verdict(sch)
    print('drained:', h.drained, 'final cache:', dict(h.mod.MetricCache()) if False else '(see oracle)')
    print('oracle:', v or 'holds')
    return 1 if v else 0
  return cacheh.replay_schedule(path)
