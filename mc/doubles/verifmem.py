"""In-memory TimeSeriesDatabase plugin registered through carbon's public PluginRegistrar API.

Logs exists/create/write in call order and takes failure decisions from a callback (the explorer's
data choice points).  Used by the writer harnesses (C03, C04, C19, C20)."""
from carbon.database import TimeSeriesDatabase


class BackendFault(IOError):
  pass


class VerifMemDatabase(TimeSeriesDatabase):
  plugin_name = 'verifmem'
  aggregationMethods = ['average', 'sum', 'last', 'max', 'min']

  def __init__(self, settings=None, files=(), fault=None, clock=None, log=None):
    self.files = set(files)
    self.fault = fault          # callable(op, metric) -> bool
    self.clock = clock          # callable() -> virtual now
    self.log = log if log is not None else []

  def _call(self, op, metric, *detail):
    failed = bool(self.fault and self.fault(op, metric))
    now = self.clock() if self.clock else None
    return failed, now

  def exists(self, metric):
    failed, now = self._call('exists', metric)
    if failed:
      self.log.append(('exists', metric, 'raise', now))
      raise BackendFault('injected fault in exists(%s)' % metric)
    r = metric in self.files
    self.log.append(('exists', metric, r, now))
    return r

  def create(self, metric, retentions, xfilesfactor, aggregation_method):
    failed, now = self._call('create', metric)
    if failed:
      self.log.append(('create', metric, 'raise', now, retentions, xfilesfactor, aggregation_method))
      raise BackendFault('injected fault in create(%s)' % metric)
    self.files.add(metric)
    self.log.append(('create', metric, 'ok', now, retentions, xfilesfactor, aggregation_method))

  def write(self, metric, datapoints):
    pts = list(datapoints)
    existed = metric in self.files
    failed, now = self._call('write', metric)
    if failed:
      self.log.append(('write', metric, 'raise', now, pts, existed))
      raise BackendFault('injected fault in write(%s)' % metric)
    self.log.append(('write', metric, 'ok', now, pts, existed))

  def getFilesystemPath(self, metric):
    return None

  def validateArchiveList(self, archiveList):
    pass

  def tag(self, *metrics):
    self.log.append(('tag',) + tuple(metrics))
