"""Stand-in for the whisper library (absent from this image): just enough for
carbon.database.WhisperDatabase to be *defined and driven*.  Only C14 puts this on sys.path."""
import os

aggregationMethods = ['average', 'sum', 'last', 'max', 'min', 'avg_zero', 'absmax', 'absmin']
AUTOFLUSH = False
LOCK = False
CAN_LOCK = True
CAN_FALLOCATE = True
CAN_FADVISE = True
FADVISE_RANDOM = False
CALLS = []


class InvalidConfiguration(Exception):
  pass


def create(path, archiveList, xFilesFactor=None, aggregationMethod=None, sparse=False, useFallocate=False):
  CALLS.append(('create', path))
  if os.path.exists(path):
    raise InvalidConfiguration('File %s already exists!' % path)
  with open(path, 'wb') as f:
    f.write(b'wsp')


def update_many(path, points):
  CALLS.append(('update_many', path))
  with open(path, 'ab') as f:
    f.write(b'.')


def info(path):
  return {'aggregationMethod': 'average'}


def setAggregationMethod(path, value):
  return 'average'


def validateArchiveList(archiveList):
  if not archiveList:
    raise InvalidConfiguration('You must specify at least one archive configuration!')
