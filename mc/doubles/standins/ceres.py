"""Stand-in for the ceres library (absent from this image).  CeresTree.getFilesystemPath is
join(root, nodePath.replace('.', os.sep)) exactly as in ceres."""
import os
from os.path import join, isdir, exists

CAN_LOCK = True
LOCK_WRITES = False
MAX_SLICE_GAP = 80


def setDefaultNodeCachingBehavior(x):
  pass


def setDefaultSliceCachingBehavior(x):
  pass


class NodeNotFound(Exception):
  pass


class CeresNode(object):
  def __init__(self, tree, nodePath, fsPath):
    self.tree = tree
    self.nodePath = nodePath
    self.fsPath = fsPath

  def readMetadata(self):
    return {}

  def writeMetadata(self, md):
    pass


class CeresTree(object):
  def __init__(self, root):
    self.root = root

  def getFilesystemPath(self, nodePath):
    return join(self.root, nodePath.replace('.', os.sep))

  def hasNode(self, nodePath):
    return isdir(self.getFilesystemPath(nodePath)) and exists(join(self.getFilesystemPath(nodePath), '.ceres-node'))

  def createNode(self, nodePath, **properties):
    p = self.getFilesystemPath(nodePath)
    os.makedirs(p, exist_ok=True)
    with open(join(p, '.ceres-node'), 'w') as f:
      f.write('{}')
    return CeresNode(self, nodePath, p)

  def getNode(self, nodePath):
    if not self.hasNode(nodePath):
      raise NodeNotFound(nodePath)
    return CeresNode(self, nodePath, self.getFilesystemPath(nodePath))

  def store(self, nodePath, datapoints):
    p = self.getFilesystemPath(nodePath)
    with open(join(p, 'slice'), 'ab') as f:
      f.write(b'.')
