"""The daemon's own start-up configuration path, run for real.

``effective(program, base, override, instance, keys)`` writes a carbon.conf with a ``[<section>]`` part (``base``)
and, when ``override`` is given, a ``[<section>:<instance>]`` part, runs carbon's real option class
(``CarbonCacheOptions`` / ``CarbonAggregatorOptions`` / ``CarbonRelayOptions`` ``.postOptions()``, i.e. what twistd
runs before the service is built) in a *subprocess* (``carbon.conf.settings`` is a process-wide singleton that
postOptions rewrites wholesale) and returns the values of ``keys`` as the daemon's code will read them
(``settings.KEY``), ``'<missing>'`` for a key that would raise.  Results are cached per run in the scratch root.

The cache checks configure MAX_CACHE_SIZE / USE_FLOW_CONTROL and the limits derived from them through this path,
so a change to the derivation, to the section/instance override order or to the place where the derivation
happens is explored like any other change of the cache code.
"""
import hashlib
import json
import os
import subprocess
import sys

from . import env

INF = float('inf')
MISSING = '<missing>'

_mem = {}


def _enc(v):
  if isinstance(v, float) and v == INF:
    return 'inf'
  return v


def _dec(v):
  return INF if v == 'inf' else v


ENV_KEY = '__env_consulted__'
DB_DIR_KEY = '__database_data_dir__'


SERVICE_KEY = '__service_built__'
FROZEN_KEY = '__frozen__'


def effective(program, base, override=None, instance=None, keys=(), environ=None, sections=None, build_service=False):
  """environ: extra environment variables for the start-up.  The result also lists (under ENV_KEY) every environment
  variable name the start-up looked up, so that a caller can explore the value alphabet of the ones it cares about."""
  req = {'program': program, 'base': base, 'override': override, 'instance': instance, 'keys': list(keys),
         'repo': env.REPO, 'environ': environ or {}}
  if sections:
    req['sections'] = sections          # other sections of the same carbon.conf, e.g. {'cache': {...}} for an aggregator
  if build_service:
    # go on as twistd does: after the options, the daemon's service tree is built (carbon.service.create*Service); the
    # values are read AFTER that, together with what the modules imported on the way froze at import (FROZEN_KEY)
    req['build_service'] = True
  blob = json.dumps(req, sort_keys=True)
  k = hashlib.sha1(blob.encode()).hexdigest()[:16]
  if k in _mem:
    return _mem[k]
  env.scratch()
  root = os.environ['VERIF_SCRATCH_ROOT']
  path = os.path.join(root, 'daemonconf-%s.json' % k)
  if not os.path.exists(path):
    _compute(path, blob)
  out = {kk: (_dec(v) if kk not in (ENV_KEY, DB_DIR_KEY, FROZEN_KEY) else v) for kk, v in json.load(open(path)).items()}
  _mem[k] = out
  return out


def _compute(path, blob):
  """One start-up subprocess per distinct request and run: workers that want the same answer wait for the first one."""
  import fcntl
  with open(path + '.lock', 'w') as lk:
    fcntl.flock(lk, fcntl.LOCK_EX)
    if os.path.exists(path):
      return
    e = dict(os.environ, PYTHONDONTWRITEBYTECODE='1', PYTHONHASHSEED='0')
    lines, last = [], ''
    for attempt in range(2):      # one retry: the child only reads files and prints one line
      try:
        r = subprocess.run([sys.executable, '-B', '-m', 'mc.daemonconf'], input=blob, capture_output=True, text=True,
                           env=e, timeout=300, cwd=os.path.dirname(os.path.dirname(os.path.abspath(__file__))))
      except subprocess.TimeoutExpired as ex:
        last = 'timeout: %r' % (ex,)
        continue
      lines = [l for l in r.stdout.splitlines() if l.startswith('RESULT ')]
      if r.returncode == 0 and lines:
        break
      last = 'rc=%s: %s' % (r.returncode, (r.stdout + r.stderr)[-800:])
      lines = []
    if not lines:
      raise RuntimeError('daemonconf subprocess failed (%s)' % last)
    tmp = '%s.%d' % (path, os.getpid())
    with open(tmp, 'w') as f:
      f.write(lines[-1][7:])
    os.replace(tmp, path)


CACHE_KEYS = ('MAX_CACHE_SIZE', 'USE_FLOW_CONTROL', 'CACHE_SIZE_LOW_WATERMARK', 'CACHE_SIZE_HARD_MAX')

# how the wanted (MAX_CACHE_SIZE, USE_FLOW_CONTROL) are spelled in carbon.conf
CACHE_VARIANTS = ('base', 'instance-over-unlimited', 'instance-over-larger', 'instance-flips-flow-control',
                  'instance-sets-only-size')


def cache_conf(max_cache, flow, variant='base'):
  """(base section, override section, instance) that configure the wanted values in the given way."""
  mc = 'inf' if max_cache in (None, INF) else repr(max_cache)
  fl = 'True' if flow else 'False'
  if variant == 'base':
    return {'MAX_CACHE_SIZE': mc, 'USE_FLOW_CONTROL': fl}, None, 'a'
  if variant == 'instance-over-unlimited':
    return {'MAX_CACHE_SIZE': 'inf', 'USE_FLOW_CONTROL': fl}, {'MAX_CACHE_SIZE': mc}, 'b'
  if variant == 'instance-over-larger':
    big = 'inf' if mc == 'inf' else repr(max_cache * 10)
    return {'MAX_CACHE_SIZE': big, 'USE_FLOW_CONTROL': fl}, {'MAX_CACHE_SIZE': mc, 'USE_FLOW_CONTROL': fl}, 'b'
  if variant == 'instance-flips-flow-control':
    return ({'MAX_CACHE_SIZE': mc, 'USE_FLOW_CONTROL': 'False' if flow else 'True'}, {'USE_FLOW_CONTROL': fl}, 'b')
  if variant == 'instance-sets-only-size':
    return {'USE_FLOW_CONTROL': fl}, {'MAX_CACHE_SIZE': mc}, 'b'
  raise ValueError(variant)


def cache_limits(max_cache, flow, variant='base'):
  base, override, instance = cache_conf(max_cache, flow, variant)
  out = dict(effective('carbon-cache', base, override, instance, CACHE_KEYS))
  for k in (ENV_KEY, DB_DIR_KEY, SERVICE_KEY, FROZEN_KEY):
    out.pop(k, None)
  return out


def prefetch(combos):
  """Resolve many (max_cache, flow, variant) combinations concurrently (one start-up subprocess each)."""
  from concurrent.futures import ThreadPoolExecutor
  todo = sorted(set(combos), key=repr)
  with ThreadPoolExecutor(max_workers=16) as ex:
    return dict(zip(todo, ex.map(lambda c: cache_limits(*c), todo)))


# settings that describe the scratch start-up itself (paths, identity, plugins) and must not be carried into a harness
NOT_TRANSFERABLE = ('CONF_DIR', 'STORAGE_DIR', 'LOCAL_DATA_DIR', 'LOG_DIR', 'PID_DIR', 'WHITELISTS_DIR', 'pidfile', 'program', 'instance',
                    'DATABASE', 'whitelist', 'blacklist', 'relay-rules', 'aggregation-rules', 'rewrite-rules', 'ENABLE_TAGS', 'USER')


def full_settings(program, base, override=None, instance=None, environ=None):
  """Every setting as the daemon's start-up leaves it (incl. keys a harness does not know about), minus the ones that
  describe the scratch start-up itself."""
  r = dict(effective(program, base, override, instance, keys=['*'], environ=environ))
  r.pop(ENV_KEY, None)
  r.pop(DB_DIR_KEY, None)
  return {k: v for k, v in r.items() if k not in NOT_TRANSFERABLE and v != MISSING}


def apply_cache_limits(settings, variant='base'):
  """Configure settings[MAX_CACHE_SIZE, USE_FLOW_CONTROL] (already set to the *wanted* values) and the derived
  limits exactly as the daemon's start-up would have left them."""
  eff = cache_limits(settings['MAX_CACHE_SIZE'], bool(settings['USE_FLOW_CONTROL']), variant)
  for k, v in eff.items():
    if k in (ENV_KEY, DB_DIR_KEY):
      continue
    if v == MISSING:
      settings.pop(k, None)
    else:
      settings[k] = v
  return eff


# ---------------------------------------------------------------------------------------------------------
def _child():
  sys_stdin_blob = sys.stdin.read()
  req = json.loads(sys_stdin_blob)
  import tempfile
  import shutil
  root = tempfile.mkdtemp(prefix='daemonconf-', dir=os.environ.get('VERIF_SCRATCH_ROOT') or None)
  try:
    conf_dir = os.path.join(root, 'conf')
    os.makedirs(conf_dir)
    # '{ROOT}' in a configured value stands for this start-up's own scratch directory (the start-up creates PID_DIR, which
    # follows STORAGE_DIR: a storage root somewhere else on the machine would be created for real)
    def _sub(d):
      return {k: (v.replace('{ROOT}', root) if isinstance(v, str) else v) for k, v in (d or {}).items()}
    req['base'] = _sub(req['base'])
    if req['override'] is not None:
      req['override'] = _sub(req['override'])
    req['sections'] = {sec: _sub(kv) for sec, kv in (req.get('sections') or {}).items()}
    section = req['program'][len('carbon-'):]
    lines = ['[%s]' % section, 'DATABASE = verifconf', 'ENABLE_TAGS = False']
    lines += ['%s = %s' % kv for kv in sorted(req['base'].items())]
    if req['override'] is not None:
      lines += ['', '[%s:%s]' % (section, req['instance'])]
      lines += ['%s = %s' % kv for kv in sorted(req['override'].items())]
    for sec, kv in sorted((req.get('sections') or {}).items()):
      lines += ['', '[%s]' % sec]
      lines += ['%s = %s' % item for item in sorted(kv.items())]
    config = os.path.join(conf_dir, 'carbon.conf')
    with open(config, 'w') as f:
      f.write('\n'.join(lines) + '\n')
    with open(os.path.join(conf_dir, 'storage-schemas.conf'), 'w') as f:
      f.write(env.MIN_SCHEMAS)
    for name in ('aggregation-rules.conf', 'rewrite-rules.conf', 'relay-rules.conf'):
      open(os.path.join(conf_dir, name), 'w').close()
    dests = [d.strip() for d in str(req['base'].get('DESTINATIONS', '')).split(',') if d.strip()]
    if dests:
      # rule-based relaying (the default method) refuses to start without a default rule
      with open(os.path.join(conf_dir, 'relay-rules.conf'), 'w') as f:
        f.write('[default]\ndefault = true\ndestinations = %s\n' % dests[0])
    os.environ['GRAPHITE_ROOT'] = root
    os.environ.pop('GRAPHITE_CONF_DIR', None)
    os.environ.pop('GRAPHITE_STORAGE_DIR', None)
    for k, v in (req.get('environ') or {}).items():
      os.environ[k] = v
    # record which environment variables the start-up consults
    import collections.abc
    consulted = set()
    real_environ = os.environ

    class RecordingEnviron(collections.abc.MutableMapping):
      def __getitem__(self, k):
        consulted.add(k)
        return real_environ[k]

      def __setitem__(self, k, v):
        real_environ[k] = v

      def __delitem__(self, k):
        del real_environ[k]

      def __iter__(self):
        return iter(real_environ)

      def __len__(self):
        return len(real_environ)

      def __contains__(self, k):
        consulted.add(k)
        return k in real_environ

      def get(self, k, default=None):
        consulted.add(k)
        return real_environ.get(k, default)

      def copy(self):
        return dict(real_environ)
    os.environ = RecordingEnviron()
    sys.path.insert(0, os.path.join(req['repo'], 'lib'))
    sys.modules.setdefault('carbon.amqp_listener', None)
    from carbon import conf
    from carbon.conf import settings
    from carbon.database import TimeSeriesDatabase

    class VerifConfDatabase(TimeSeriesDatabase):
      plugin_name = 'verifconf'

      def __init__(self, settings):
        # like the real plugins, remember the data directory the moment the database object is built
        VerifConfDatabase.data_dir_at_construction = settings.LOCAL_DATA_DIR

    class Parent(dict):
      subCommand = req['program']

    cls = {'carbon-cache': conf.CarbonCacheOptions, 'carbon-aggregator': conf.CarbonAggregatorOptions,
           'carbon-aggregator-cache': conf.CarbonAggregatorOptions, 'carbon-relay': conf.CarbonRelayOptions}[req['program']]
    options = cls()
    options.parent = Parent(pidfile='twistd.pid', umask=None, nodaemon=True, syslog=None)
    options['config'] = config
    options['instance'] = req['instance'] or 'a'
    options['debug'] = True
    import io
    import contextlib
    with contextlib.redirect_stdout(io.StringIO()):
      options.postOptions()
    out = {}
    if req.get('build_service'):
      from carbon import service
      maker = {'carbon-cache': service.createCacheService, 'carbon-relay': service.createRelayService,
               'carbon-aggregator': service.createAggregatorService,
               'carbon-aggregator-cache': service.createAggregatorCacheService}[req['program']]
      with contextlib.redirect_stdout(io.StringIO()):
        maker(options)
      out[SERVICE_KEY] = True
      frozen = {}
      cl = sys.modules.get('carbon.client')
      if cl is not None:
        for name in ('SEND_QUEUE_HARD_MAX', 'SEND_QUEUE_LOW_WATERMARK'):
          frozen['client.' + name] = _enc(getattr(cl, name, MISSING))
      wr = sys.modules.get('carbon.writer')
      if wr is not None:
        for name in ('UPDATE_BUCKET', 'CREATE_BUCKET'):
          b = getattr(wr, name, MISSING)
          frozen['writer.' + name] = b if (b is None or b == MISSING) else [_enc(b.capacity), _enc(b.fill_rate)]
      out[FROZEN_KEY] = frozen
    keys = list(req['keys'])
    if keys == ['*']:
      # everything the start-up left in the settings object (dict entries and instance attributes)
      keys = sorted(set(list(settings.keys()) + list(vars(settings).keys())))
    for k in keys:
      try:
        v = _enc(getattr(settings, k))
      except (KeyError, AttributeError):
        v = MISSING
      if isinstance(v, (str, int, float, bool)) or v is None:
        out[k] = v
      elif isinstance(v, (list, tuple)) and all(isinstance(x, (str, int, float, bool)) for x in v):
        out[k] = list(v)
    out[ENV_KEY] = sorted(k for k in consulted if isinstance(k, str))
    out[DB_DIR_KEY] = getattr(VerifConfDatabase, 'data_dir_at_construction', MISSING)
    if '{ROOT}' in json.dumps(json.loads(sys_stdin_blob)):
      for k, v in list(out.items()):
        if isinstance(v, str) and root in v:
          out[k] = v.replace(root, '{ROOT}')
    os.environ = real_environ
    print('RESULT ' + json.dumps(out))
  finally:
    shutil.rmtree(root, ignore_errors=True)


if __name__ == '__main__':
  _child()
