"""evx - breadth-first explicit-state search over event histories of real single-threaded objects.

A node is the event history that reaches it; live Twisted/carbon objects do not copy, so a node is
re-materialised by ``reset()`` + replay, and the replay asserts the canonical state recorded when the
node was first reached (determinism guard).  A reference model is stepped in lock-step by the system
itself and ``apply``/``check`` report disagreements after *every* transition.
"""
from . import core


class System(object):
  """Interface of an evx system."""

  def reset(self):
    raise NotImplementedError

  def enabled(self):
    """Finite event menu in the current state, simplest first."""
    raise NotImplementedError

  def apply(self, ev):
    """Apply one event to the real objects and the reference; return None or (key, what)."""
    raise NotImplementedError

  def canon(self):
    raise NotImplementedError

  def check(self):
    return None

  def on_new_state(self):
    """Called on the instance that has just reached a new canonical state (the instance is thrown
    away afterwards, so destructive probing - e.g. 'drain to quiescence' - is allowed here)."""
    return None

  def close(self):
    pass


class ReplayViolation(Exception):
  """A history that passed when it was first explored violates the lock-step oracle when it is replayed: the
  implementation behaves differently in identical runs.  The violation is an observation like any other."""

  def __init__(self, hist, v):
    Exception.__init__(self, 'history %r violated %r during re-materialisation' % (hist, v))
    self.hist, self.v = hist, v


def materialize(sysm, hist):
  sysm.reset()
  for i, e in enumerate(hist):
    v = sysm.apply(e)
    if v is not None:
      raise ReplayViolation(tuple(hist[:i + 1]), v)


def bfs(sysm, depth, max_violations=3, max_states=None):
  stats = {'states': 0, 'transitions': 0, 'depth_completed': 0, 'exhausted': False, 'violations': [],
           'replays': 0, 'samples': [], 'capped': False}
  sysm.reset()
  root = sysm.canon()
  seen = {root: ()}
  v = sysm.on_new_state()
  if v:
    stats['violations'].append((v[0], v[1], []))
  frontier = [((), root)]
  for d in range(depth):
    nxt = []
    for hist, key in frontier:
      try:
        materialize(sysm, hist)
      except ReplayViolation as rv:
        if len(stats['violations']) < max_violations:
          stats['violations'].append((rv.v[0], rv.v[1] + ' (on a replay: the same history had passed before - identical runs differ)', list(rv.hist)))
        continue
      if sysm.canon() != key:
        raise core.HarnessError('NONDETERMINISM: replay of %r reached %r, recorded %r' % (hist, sysm.canon(), key))
      stats['replays'] += 1
      evs = list(sysm.enabled())
      for ev in evs:
        try:
          materialize(sysm, hist)
        except ReplayViolation as rv:
          if len(stats['violations']) < max_violations:
            stats['violations'].append((rv.v[0], rv.v[1] + ' (on a replay: the same history had passed before - identical runs differ)', list(rv.hist)))
          break
        v = sysm.apply(ev)
        stats['transitions'] += 1
        if v is None:
          v = sysm.check()
        h2 = hist + (ev,)
        if v is not None:
          if len(stats['violations']) < max_violations:
            stats['violations'].append((v[0], v[1], list(h2)))
          continue
        k = sysm.canon()
        if k not in seen:
          seen[k] = h2
          v = sysm.on_new_state()
          if v is not None:
            if len(stats['violations']) < max_violations:
              stats['violations'].append((v[0], v[1], list(h2)))
            continue
          nxt.append((h2, k))
          if len(stats['samples']) < 2 and d >= 2:
            stats['samples'].append(list(h2))
      if max_states and len(seen) > max_states:
        stats['capped'] = True
        break
    frontier = nxt
    if stats['capped']:
      break
    stats['depth_completed'] = d + 1
    if not frontier:
      stats['exhausted'] = True
      break
  stats['states'] = len(seen)
  sysm.close()
  return stats
