"""Canary callables planted in a harness module: the safe unpickler must never reach them."""
FIRED = []


def fire(*args, **kwargs):
  FIRED.append(('fire', args))
  return 'fired'


class Cls(object):
  def __new__(cls, *args, **kwargs):
    FIRED.append(('Cls.__new__', args))
    return object.__new__(cls)

  def __init__(self, *args, **kwargs):
    FIRED.append(('Cls.__init__', args))

  def __setstate__(self, state):
    FIRED.append(('Cls.__setstate__', state))


class OldStyle:
  def __init__(self, *args):
    FIRED.append(('OldStyle.__init__', args))
