"""Runner context: evidence, replay files, known findings, process sharding."""
import hashlib
import json
import multiprocessing
import os
import subprocess
import sys
import time

from . import env

VERIF = env.VERIF
EVIDENCE_SCHEMA = '/root/.vp/EVIDENCE.schema.json'
KNOWN_FILE = os.path.join(VERIF, 'KNOWN_FINDINGS.txt')


class HarnessError(Exception):
  """The machinery itself is broken (nondeterminism, unmet coverage obligation): exit 2."""


def jsonable(x):
  if isinstance(x, (str, int, bool)) or x is None:
    return x
  if isinstance(x, float):
    if x != x or x in (float('inf'), float('-inf')):
      return repr(x)
    return x
  if isinstance(x, bytes):
    return {'bytes_hex': x.hex()}
  if isinstance(x, dict):
    return {str(k): jsonable(v) for k, v in x.items()}
  if isinstance(x, (list, tuple, set, frozenset)):
    return [jsonable(v) for v in x]
  return repr(x)


def load_known():
  """KNOWN_FINDINGS.txt -> {property: {key: description}} (only 'known:' lines suppress)."""
  known = {}
  if not os.path.exists(KNOWN_FILE):
    return known
  for line in open(KNOWN_FILE):
    line = line.strip()
    if not line.startswith('known:'):
      continue
    fields = line[len('known:'):].split(None, 2)
    prop = key = None
    rest = ''
    for i, f in enumerate(fields):
      if f.startswith('property='):
        prop = f[len('property='):]
      elif f.startswith('key='):
        key = f[len('key='):]
      else:
        rest = ' '.join(fields[i:])
        break
    if prop and key:
      known.setdefault(prop, {})[key] = rest
  return known


class Context(object):
  def __init__(self, prop, tier, seed, level):
    self.prop = prop
    self.tier = tier
    self.seed = seed
    self.level = level
    self.t0 = time.time()
    self.coverage = {}
    self.assumptions = []
    self.violations = []       # (key, what, replay_path)
    self.known_hits = {}       # key -> what
    self.known = load_known().get(prop, {})
    self.notes = []
    self.max_reports = 40

  @property
  def thorough(self):
    return self.tier == 'thorough'

  def pick(self, quick, thorough):
    return thorough if self.thorough else quick

  # -- violations -----------------------------------------------------------------------------
  def violation(self, key, what, replay):
    """Report a counterexample.  `key` is the stable cause key matched against KNOWN_FINDINGS."""
    if key in self.known:
      if key not in self.known_hits:
        self.known_hits[key] = what
        print('KNOWN-FINDING: property=%s key=%s %s' % (self.prop, key, self.known[key] or what))
        sys.stdout.flush()
      return
    if any(v[0] == key for v in self.violations) and len(self.violations) >= 1:
      # one replay file per cause key is enough; count the rest
      self.coverage['further_violations_same_key'] = self.coverage.get('further_violations_same_key', 0) + 1
      return
    path = self.write_replay(key, what, replay)
    self.violations.append((key, what, path))
    if len(self.violations) <= self.max_reports:
      print('  counterexample [%s]: %s' % (key, what))
    print('VIOLATION property=%s replay=%s' % (self.prop, path))
    sys.stdout.flush()

  def write_replay(self, key, what, replay):
    d = os.path.join(VERIF, 'replays', self.prop)
    os.makedirs(d, exist_ok=True)
    body = {'property': self.prop, 'key': key, 'what': what, 'replay': jsonable(replay)}
    digest = hashlib.sha1(json.dumps(body, sort_keys=True).encode()).hexdigest()[:12]
    path = os.path.join(d, '%s.json' % digest)
    with open(path, 'w') as f:
      json.dump(body, f, indent=1, sort_keys=True)
    return os.path.relpath(path, VERIF)

  # -- evidence -------------------------------------------------------------------------------
  def add(self, **kw):
    for k, v in kw.items():
      if isinstance(v, int) and isinstance(self.coverage.get(k), int) and not isinstance(v, bool):
        self.coverage[k] += v
      else:
        self.coverage[k] = v

  def sample(self, s, cap=6):
    lst = self.coverage.setdefault('samples', [])
    if len(lst) < cap:
      lst.append(jsonable(s))

  def finish(self):
    ev = {
      'property_id': self.prop,
      'tier': self.tier,
      'seed': self.seed,
      'level': self.level,
      'coverage': jsonable(self.coverage),
      'assumptions': self.assumptions,
      'wall_s': round(time.time() - self.t0, 3),
      'violations': len(self.violations),
    }
    if self.known_hits:
      ev['coverage']['known_findings_reproduced'] = sorted(self.known_hits)
    # (runs against a deliberately modified tree - tools/trymut.sh - must not clobber the committed evidence)
    d = os.environ.get('VERIF_EVIDENCE_DIR') or os.path.join(VERIF, 'evidence')
    os.makedirs(d, exist_ok=True)
    path = os.path.join(d, '%s.json' % self.prop)
    tmp = path + '.tmp.%d' % os.getpid()
    with open(tmp, 'w') as f:
      json.dump(ev, f, indent=1, sort_keys=True)
    os.replace(tmp, path)
    try:
      validate_evidence(path)
    except HarnessError:
      if not self.violations:
        raise
      # a run that found violations may legitimately have few passing cases; the verdict stands
    return 1 if self.violations else 0


def validate_evidence(path):
  """Validate against the official schema with python3-vt's jsonschema when available, else with a
  minimal in-tree check of the keys the schema requires for the level."""
  ev = json.load(open(path))
  for k in ('property_id', 'tier', 'seed', 'level', 'coverage', 'wall_s'):
    if k not in ev:
      raise HarnessError('evidence %s lacks %s' % (path, k))
  cov = ev['coverage']
  if ev['level'] == 'model_checking':
    for k in ('states', 'transitions', 'traces_validated_against_impl', 'samples'):
      if k not in cov:
        raise HarnessError('evidence %s: model_checking coverage lacks %s' % (path, k))
    if cov['states'] < 1 or cov['transitions'] < 1 or not cov['samples']:
      raise HarnessError('evidence %s: empty model_checking coverage' % path)
  elif ev['level'] in ('exploration', 'fault_enumeration'):
    for k in ('evaluations', 'distinct_nontrivial', 'rule', 'samples'):
      if k not in cov:
        raise HarnessError('evidence %s: exploration coverage lacks %s' % (path, k))
    if cov['evaluations'] < 1 or cov['distinct_nontrivial'] < 2 or not cov['samples']:
      raise HarnessError('evidence %s: thin exploration coverage' % path)
  if os.path.exists(EVIDENCE_SCHEMA) and os.environ.get('VERIF_SCHEMA_CHECK', '1') == '1':
    code = ("import json,sys,jsonschema; jsonschema.validate(json.load(open(sys.argv[1])),"
            "json.load(open(sys.argv[2])))")
    try:
      r = subprocess.run(['python3-vt', '-W', 'ignore', '-c', code, path, EVIDENCE_SCHEMA],
                         capture_output=True, text=True, timeout=60)
    except (OSError, subprocess.TimeoutExpired):
      return
    if r.returncode != 0 and 'ValidationError' in r.stderr:
      raise HarnessError('evidence %s does not validate: %s' % (path, r.stderr[-800:]))


# ---- sharding over processes -----------------------------------------------------------------

def ncpu():
  try:
    n = len(os.sched_getaffinity(0))
  except AttributeError:
    n = os.cpu_count() or 1
  return max(1, min(n, int(os.environ.get('VERIF_JOBS', '16'))))


def _call(packed):
  fn, arg = packed
  try:
    return ('ok', fn(arg))
  except HarnessError as e:
    return ('harness', str(e))
  except BaseException as e:   # noqa
    import traceback
    return ('crash', '%s\n%s' % (arg if len(repr(arg)) < 400 else repr(arg)[:400], traceback.format_exc()))


def _pin():
  """Pin a worker to one CPU: the baton hand-off between the controlled threads of thrx is ~6x
  cheaper when both threads share a CPU (cross-CPU wake-ups are slow in this VM)."""
  try:
    cpus = sorted(os.sched_getaffinity(0))
    ident = multiprocessing.current_process()._identity
    k = (ident[0] - 1) if ident else 0
    os.sched_setaffinity(0, {cpus[k % len(cpus)]})
  except (AttributeError, OSError, IndexError):
    pass
  _limit_memory()


def _limit_memory():
  """A worker that runs away (an exploration of a tree whose executions do not terminate) must die with MemoryError - a
  harness error - instead of taking the machine down: soft address-space limit per worker when VERIF_WORKER_MEM_GB is set
  (tools/trymut.sh sets it for runs against changed trees; the registered commands run without it)."""
  if not os.environ.get('VERIF_WORKER_MEM_GB'):
    return
  try:
    import resource
    gb = float(os.environ['VERIF_WORKER_MEM_GB'])
    soft, hard = resource.getrlimit(resource.RLIMIT_AS)
    want = int(gb * 2 ** 30)
    if hard != resource.RLIM_INFINITY:
      want = min(want, hard)
    if soft == resource.RLIM_INFINITY or soft > want:
      resource.setrlimit(resource.RLIMIT_AS, (want, hard))
  except (ImportError, ValueError, OSError):
    pass


def pmap(fn, args, fresh=False, procs=None, chunksize=1):
  """Run fn over args in forked worker processes (fresh=True: one process per task, for
  configuration that carbon freezes at import time).  Results in input order.  A crash in a worker
  is a harness error, never a pass."""
  args = list(args)
  if not args:
    return []
  procs = min(procs or ncpu(), len(args))
  if procs <= 1 and not fresh:
    out = [_call((fn, a)) for a in args]
  else:
    ctx = multiprocessing.get_context('fork')
    limit = float(os.environ.get('VERIF_PMAP_TIMEOUT', '5400'))
    with ctx.Pool(procs, initializer=_pin, maxtasksperchild=1 if fresh else None) as pool:
      job = pool.map_async(_call, [(fn, a) for a in args], chunksize=1 if fresh else chunksize)
      try:
        out = job.get(limit)
      except multiprocessing.TimeoutError:
        pool.terminate()
        raise HarnessError('worker pool did not finish within %ds (a worker died or hung) in %s' % (limit, getattr(fn, '__name__', fn)))
  res = []
  for i, (kind, val) in enumerate(out):
    if kind == 'crash':
      # a worker crashed: run that one task once more in a process of its own (a machine short of threads or memory
      # under load must not turn into a harness error); a crash that repeats is reported with both tracebacks
      ctx = multiprocessing.get_context('fork')
      with ctx.Pool(1, maxtasksperchild=1) as pool:
        kind2, val2 = pool.apply(_call, ((fn, args[i]),))
      if kind2 == 'crash':
        raise HarnessError('worker crash (twice): %s\n--- first attempt ---\n%s' % (val2, val))
      kind, val = kind2, val2
    if kind != 'ok':
      raise HarnessError('worker %s: %s' % (kind, val))
    res.append(val)
  return res


def digest(obj):
  return hashlib.sha1(json.dumps(jsonable(obj), sort_keys=True).encode()).hexdigest()[:16]


def seeded_order(items, seed):
  """Deterministic permutation of a finite alphabet: the *set* explored never depends on the seed,
  only the visiting order (and hence which counterexample is reported first)."""
  items = list(items)
  if not seed:
    return items
  import random
  r = random.Random(seed)
  r.shuffle(items)
  return items
