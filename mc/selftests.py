"""Toy systems with planted bugs: the engines must find them (and only within the right bound)."""
import os

from . import core, thrx

HERE = os.path.abspath(__file__)


# ---- thrx: lost update ---------------------------------------------------------------------------
class Counter(object):
  def __init__(self):
    self.n = 0

  def incr(self):
    v = self.n
    v = v + 1
    self.n = v


class LostUpdate(thrx.Harness):
  def __init__(self, params):
    self.c = Counter()

  def visible(self):
    return {HERE: {'incr'}}

  def setup(self, s):
    s.spawn('a', self.c.incr)
    s.spawn('b', self.c.incr)

  def outcome(self, s):
    return self.c.n

  def verdict(self, s):
    return None if self.c.n == 2 else ('lost-update', 'n=%d' % self.c.n)


def make_lost(params):
  return LostUpdate(params)


def test_thrx_lost_update():
  r0 = thrx.explore(make_lost, None, (0, 0), fanout=1000)
  assert not r0['violations'], 'lost update must need a preemption'
  assert r0['executions'] == 2, r0['executions']    # a first / b first
  r1 = thrx.explore(make_lost, None, (1, 0), fanout=4)
  assert r1['violations'] and r1['violations'][0][0] == 'lost-update'
  assert len(r1['outcomes']) == 2
  # replay of the counterexample reproduces it, twice
  ch = r1['violations'][0][2]['choices']
  for _ in range(2):
    s, h = thrx.run_one(make_lost, None, ch)
    assert h.c.n == 1


# ---- thrx: AB/BA deadlock ------------------------------------------------------------------------
class ABBA(thrx.Harness):
  def __init__(self, params):
    pass

  def setup(self, s):
    self.a = thrx.SchedLock(s, 'A')
    self.b = thrx.SchedLock(s, 'B')

    def t1():
      with self.a:
        with self.b:
          pass

    def t2():
      with self.b:
        with self.a:
          pass
    s.spawn('t1', t1)
    s.spawn('t2', t2)

  def outcome(self, s):
    return s.deadlock


def make_abba(params):
  return ABBA(params)


def test_thrx_deadlock():
  r0 = thrx.explore(make_abba, None, (0, 0), fanout=1000)
  assert r0['deadlocks'] == 0
  r1 = thrx.explore(make_abba, None, (1, 0), fanout=4)
  assert r1['deadlocks'] > 0 and any(v[0] == 'deadlock' for v in r1['violations'])


# ---- thrx: polling loop terminates only thanks to the yield rule -----------------------------------
class Poller(thrx.Harness):
  def __init__(self, params):
    self.flag = False
    self.seen = 0

  def setup(self, s):
    def poll():
      while not self.flag:
        self.seen += 1
        s.sleep(1)

    def setter():
      s.point('before-set')
      self.flag = True
    s.spawn('poll', poll)
    s.spawn('set', setter)

  def outcome(self, s):
    return (self.flag, s.horizon_hit)


def make_poller(params):
  return Poller(params)


def test_thrx_polling_terminates():
  r = thrx.explore(make_poller, None, (2, 0), fanout=1000)
  assert r['horizon'] == 0 and r['deadlocks'] == 0 and r['executions'] >= 2, r


# ---- thrx: data choices are enumerated and budgeted ------------------------------------------------
class Faulty(thrx.Harness):
  def __init__(self, params):
    self.log = []

  def setup(self, s):
    def t():
      for i in range(3):
        self.log.append(s.choose(2, 'call%d' % i))
    s.spawn('t', t)

  def outcome(self, s):
    return tuple(self.log)


def make_faulty(params):
  return Faulty(params)


def test_thrx_fault_budget():
  r = thrx.explore(make_faulty, None, (0, 1), fanout=1000)
  assert sorted(r['outcomes']) == sorted(repr(x) for x in [(0, 0, 0), (1, 0, 0), (0, 1, 0), (0, 0, 1)]), r['outcomes']
  r = thrx.explore(make_faulty, None, (0, 2), fanout=2)
  assert len(r['outcomes']) == 7, r['outcomes']


# ---- evx: bounded queue with a planted off-by-one -----------------------------------------------------
class ToyQueue(object):
  def __init__(self, cap, bug):
    self.items, self.cap, self.bug = [], cap, bug

  def push(self, x):
    if len(self.items) < self.cap + (1 if self.bug and 9 in self.items else 0):
      self.items.append(x)
      return True
    return False

  def pop(self):
    return self.items.pop(0) if self.items else None


class ToySystem(object):
  def __init__(self, bug):
    self.bug = bug

  def reset(self):
    self.q = ToyQueue(2, self.bug)
    self.ref = []

  def enabled(self):
    return [('push', 1), ('push', 9), ('pop',)]

  def apply(self, ev):
    if ev[0] == 'push':
      got = self.q.push(ev[1])
      want = len(self.ref) < 2
      if want:
        self.ref.append(ev[1])
      if got != want:
        return ('capacity', 'push accepted=%r, reference %r' % (got, want))
    else:
      got = self.q.pop()
      want = self.ref.pop(0) if self.ref else None
      if got != want:
        return ('order', 'pop %r, reference %r' % (got, want))
    return None

  def canon(self):
    return tuple(self.q.items)

  def check(self):
    return None

  def on_new_state(self):
    return None

  def close(self):
    pass


def test_evx_finds_planted_bug():
  from . import evx
  ok = evx.bfs(ToySystem(False), 6)
  assert not ok['violations'] and ok['exhausted'] and ok['states'] == 7, ok
  bad = evx.bfs(ToySystem(True), 6)
  assert bad['violations'] and bad['violations'][0][0] == 'capacity', bad
  assert len(bad['violations'][0][2]) == 3, bad['violations'][0]      # BFS: the shortest counterexample


# ---- segx: a receiver whose outcome depends on where the stream is cut -------------------------------------
def test_segx_detects_cut_sensitivity():
  from . import segx, env
  env.boot()
  from twisted.protocols.basic import LineOnlyReceiver
  from carbon import events

  class Sane(LineOnlyReceiver):
    delimiter = b'\n'

    def lineReceived(self, line):
      events.metricReceived(line.decode(), (1, 1.0))

  class PerChunk(Sane):
    def dataReceived(self, data):
      # bug: a chunk ending in the middle of a line loses the partial line
      if not data.endswith(b'\n') and b'\n' in data:
        data = data[:data.rindex(b'\n') + 1]
      return Sane.dataReceived(self, data)
  stream = b'ab\ncd\nef\n'
  r = segx.explore_stream(Sane, stream, 2)
  assert r['divergence'] is None and r['max_states_per_offset'] == 1 and len(r['final_raw']) == 3, r
  r = segx.explore_stream(PerChunk, stream, 2)
  assert r['divergence'] is not None, r


ALL = [test_evx_finds_planted_bug, test_segx_detects_cut_sensitivity, test_thrx_lost_update, test_thrx_deadlock, test_thrx_polling_terminates, test_thrx_fault_budget]
