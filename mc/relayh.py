"""The real carbon relay (client manager, factories, protocols, pipeline wiring) on fake I/O (C07, C09, C15).

`carbon.client.reactor` is replaced by an object offering callLater (Twisted's task.Clock) and
connectTCP returning a connector that subclasses Twisted's own BaseConnector, so the
connecting/connected/disconnected machine and ReconnectingClientFactory are Twisted's real code; only the
socket is fake.  The environment's decisions are explicit events.
"""
import os
import pickle
import struct

from . import core, env, evx

DESTS = [('10.0.0.1', 2004, 'a'), ('10.0.0.2', 2004, 'b'), ('10.0.0.3', 2004, 'c')]


class FakeTransport(object):
  """Client-side transport of one connection attempt."""

  def __init__(self, connector):
    self.connector = connector
    self.connected = False
    self.disconnected = False
    self.closing = False
    self.written = []
    self.producer = None
    self.protocol = None
    self.lose_log = []
    self.pause_after = 0        # armed by the environment: the n-th write from now fills the socket buffer

  # -- used by BaseConnector
  def failIfNotConnected(self, err):
    if self.connected or self.disconnected or self.connector is None:
      return
    from twisted.python.failure import Failure
    c = self.connector
    self.connector = None
    self.disconnected = True
    c.connectionFailed(Failure(err))

  # -- used by the protocol
  def write(self, data):
    # (Twisted keeps accepting writes after loseConnection() and flushes them before closing)
    if self.disconnected:
      return
    self.written.append(bytes(data))
    if self.pause_after:
      self.pause_after -= 1
      if self.pause_after == 0 and self.producer is not None:
        self.producer.pauseProducing()

  def writeSequence(self, seq):
    for d in seq:
      self.write(d)

  def registerProducer(self, producer, streaming):
    self.producer = producer

  def unregisterProducer(self):
    self.producer = None

  def loseConnection(self):
    if not self.closing and not self.disconnected:
      self.closing = True
      self.connector.harness.on_lose_connection(self.connector.dest)

  def getPeer(self):
    from twisted.internet.address import IPv4Address
    return IPv4Address('TCP', self.connector.host, self.connector.port)

  getHost = getPeer


def make_connector_class():
  from twisted.internet.base import BaseConnector

  class FakeConnector(BaseConnector):
    def __init__(self, host, port, factory, reactor, harness):
      BaseConnector.__init__(self, factory, None, reactor)
      self.host, self.port = host, port
      self.harness = harness
      self.dest = factory.destination

    def _makeTransport(self):
      return FakeTransport(self)

    def getDestination(self):
      from twisted.internet.address import IPv4Address
      return IPv4Address('TCP', self.host, self.port)
  return FakeConnector


class FakeReactor(object):
  def __init__(self, harness):
    from twisted.internet.task import Clock
    self.clock = Clock()
    self.harness = harness
    self.connectors = {}
    self.running = True
    self.cls = make_connector_class()

  def callLater(self, delay, f, *a, **kw):
    return self.clock.callLater(delay, f, *a, **kw)

  def seconds(self):
    return self.clock.seconds()

  def connectTCP(self, host, port, factory, timeout=30, bindAddress=None):
    c = self.cls(host, port, factory, self, self.harness)
    self.connectors[factory.destination] = c
    c.connect()
    return c

  def callWhenRunning(self, f, *a, **kw):
    return None

  def addSystemEventTrigger(self, *a, **kw):
    return None


class Undecodable(Exception):
  pass


def decode_pickle_stream(buf):
  out = []
  o = 0
  while o + 4 <= len(buf):
    (n,) = struct.unpack('!I', buf[o:o + 4])
    if o + 4 + n > len(buf):
      break
    try:
      out.append([(m, ts, v) for m, (ts, v) in pickle.loads(buf[o + 4:o + 4 + n])])
    except Exception as e:   # noqa - a message no independent decoder can read (a fresh unpickler per frame, as the listener uses)
      raise Undecodable('pickle message %r cannot be decoded on its own: %r' % (buf[o + 4:o + 4 + min(n, 60)], e))
    o += 4 + n
  return out, buf[o:]


def decode_line_stream(buf):
  out = []
  while b'\n' in buf:
    line, buf = buf.split(b'\n', 1)
    try:
      m, v, ts = line.decode('utf-8').rstrip('\r').split(' ')
      out.append([(m, float(ts), float(v))])
    except Exception as e:   # noqa
      raise Undecodable('line %r cannot be decoded: %r' % (line[:80], e))
  return out, buf


RULES_TEMPLATE = """[m]
pattern = ^m
destinations = %(d0)s

[n]
pattern = ^n
destinations = %(d1)s

[default]
default = true
destinations = %(all)s
"""


def dest_str(d):
  host = '[%s]' % d[0] if ':' in d[0] else d[0]
  return '%s:%d:%s' % (host, d[1], d[2]) if d[2] is not None else '%s:%d' % (host, d[1])


class Relay(evx.System):
  """evx system: the relay with the reference model in lock-step."""

  def __init__(self, p):
    self.p = p
    self.ndest = p.get('ndest', 2)
    self.dests = [tuple(d) for d in p['dests']] if p.get('dests') else DESTS[:self.ndest]
    self.metrics = p.get('metrics', ('m', 'n', 'b'))
    self.with_receivers = p.get('receivers', False)
    self._configured = False

  # ---- configuration that carbon.client freezes at import time --------------------------------------
  def configure_process(self):
    """Once per (fresh) process: settings, then (re)load carbon.client so that its module constants see them."""
    p = self.p
    settings = env.boot()
    settings['MAX_QUEUE_SIZE'] = p['max_queue']
    settings['MAX_DATAPOINTS_PER_MESSAGE'] = p['batch']
    settings['USE_FLOW_CONTROL'] = p.get('flow', True)
    settings['QUEUE_LOW_WATERMARK_PCT'] = p.get('low_pct', 0.8)
    settings['MAX_QUEUE_SIZE_HARD_PCT'] = 1.25
    settings['DYNAMIC_ROUTER'] = p.get('dynamic', False)
    settings['DYNAMIC_ROUTER_MAX_RETRIES'] = p.get('max_retries', 1)
    settings['DESTINATION_PROTOCOL'] = p.get('protocol', 'pickle')
    settings['DESTINATION_POOL_REPLICAS'] = bool(p.get('pool'))
    settings['DESTINATIONS'] = [dest_str(d) for d in self.dests]
    settings['program'] = 'carbon-relay'
    settings['RELAY_METHOD'] = p.get('relay_method', 'rules')
    if p.get('hash_type'):
      settings['ROUTER_HASH_TYPE'] = p['hash_type']
      settings['REPLICATION_FACTOR'] = p.get('rf', 1)
      settings['DIVERSE_REPLICAS'] = False
    settings['TAG_RELAY_NORMALIZED'] = False
    settings['USE_RATIO_RESET'] = bool(p.get('ratio_reset'))
    settings['MIN_RESET_STAT_FLOW'] = 1
    settings['MIN_RESET_RATIO'] = 0.9
    settings['MIN_RESET_INTERVAL'] = 0
    settings['CARBON_METRIC_INTERVAL'] = 0
    settings['TIME_TO_DEFER_SENDING'] = 0.0001
    rules = os.path.join(env.scratch(), 'relay-rules-%d.conf' % os.getpid())
    d = [dest_str(x) for x in self.dests]
    with open(rules, 'w') as f:
      f.write(RULES_TEMPLATE % {'d0': d[0], 'd1': d[1 % len(d)], 'all': ', '.join(d)})
    settings['relay-rules'] = rules
    import importlib
    import carbon.client
    importlib.reload(carbon.client)
    import carbon.service       # noqa (plugins registered, state.events wired)
    # the limits carbon.client derives at import are the ones the relay's real start-up leaves behind (options parsed, service
    # tree built, mc/daemonconf.py): if the daemon imports the module before carbon.conf is read, they are the defaults'
    from . import daemonconf
    started = daemonconf.effective('carbon-relay', {
      'DESTINATIONS': '127.0.0.1:2004:a', 'RELAY_METHOD': 'consistent-hashing', 'MAX_QUEUE_SIZE': repr(p['max_queue']),
      'USE_FLOW_CONTROL': repr(bool(p.get('flow', True))), 'QUEUE_LOW_WATERMARK_PCT': repr(p.get('low_pct', 0.8)),
      'MAX_QUEUE_SIZE_HARD_PCT': '1.25'}, keys=['MAX_QUEUE_SIZE'], build_service=True)
    frozen = started.get(daemonconf.FROZEN_KEY) or {}
    for name in ('SEND_QUEUE_HARD_MAX', 'SEND_QUEUE_LOW_WATERMARK'):
      v = frozen.get('client.' + name, daemonconf.MISSING)
      if v == daemonconf.MISSING:
        raise RuntimeError('the relay start-up did not leave carbon.client.%s behind' % name)
      setattr(carbon.client, name, daemonconf._dec(v))
    self.settings = settings
    self.client = carbon.client
    self.low_watermark = p['max_queue'] * p.get('low_pct', 0.8)
    self.hard_max = p['max_queue'] * 1.25 if p.get('flow', True) else p['max_queue']
    self._configured = True

  # ---- evx interface ------------------------------------------------------------------------------------
  def reset(self):
    if not self._configured:
      self.configure_process()
    env.reset_state()
    from twisted.application.service import MultiService
    from twisted.internet.protocol import ReconnectingClientFactory
    from carbon import service, state, events
    client = self.client
    self.reactor = FakeReactor(self)
    self.saved = (client.reactor, ReconnectingClientFactory.clock, client.CarbonClientFactory.jitter, client.time)
    client.reactor = self.reactor
    client.time = self.reactor.clock.seconds
    ReconnectingClientFactory.clock = self.reactor.clock
    client.CarbonClientFactory.jitter = 0
    self.events = events
    self.state = state
    self.lose_after_stop = []
    self.pending_violation = None
    self.stopped = False
    self.stop_exc = None
    self.root = MultiService()
    saved_reactor_cwr = None
    if self.p.get('pool'):
      client.setUpRandomResolver = lambda reactor: None     # DNS answer shuffling: nothing is resolved here
    service.setupPipeline(['relay'], self.root, self.settings)
    self.cm = state.client_manager
    self.root.startService()
    self.n = 0
    # reference model
    self.q = {d: [] for d in self.dests}
    self.unrouted = []
    self.drops = {d: 0 for d in self.dests}
    self.member = set() if self.p.get('dynamic') else set(self.dests)
    self.retries = {d: 0 for d in self.dests}
    self.buf = {d: b'' for d in self.dests}
    self.consumed = {}
    self.sent = {d: [] for d in self.dests}
    self.receivers = []
    self.rx_pool = 0
    self.badstats = False
    self.applied = []
    self.reports = 0
    self.reported = {}        # stat name -> sum of the values handed to the self-metrics recorder so far

  def close(self):
    if getattr(self, 'saved', None):
      from twisted.internet.protocol import ReconnectingClientFactory
      client = self.client
      client.reactor, ReconnectingClientFactory.clock, client.CarbonClientFactory.jitter, client.time = self.saved
      self.saved = None

  def on_lose_connection(self, dest):
    # An orderly stop (the factory has given up reconnecting) asks for the close: everything queued must have
    # been handed to the transport BEFORE that request.  (A close requested by the connection-quality monitor
    # is different: the factory keeps trying and nothing is lost.)
    f = self.factory(dest)
    if self.stopped and f is not None and not f.continueTrying:
      t = self.transport(dest)
      v = self.flush_written(dest) if t is not None else None
      if v:
        self.pending_violation = v
      elif self.q.get(dest):
        self.pending_violation = ('closed-before-flush', 'after stop loseConnection() was called on %r with %r not yet written' % (
          dest, self.q[dest]))

  # ---- helpers --------------------------------------------------------------------------------------------
  def factory(self, d):
    # (after a stop the manager forgets the factory, but the factory and its connector live on)
    c = self.reactor.connectors.get(d)
    return c.factory if c is not None else self.cm.client_factories.get(d)

  def connector(self, d):
    return self.reactor.connectors.get(d)

  def transport(self, d):
    c = self.connector(d)
    return getattr(c, 'transport', None) if c is not None else None

  def enabled(self):
    evs = []
    if not self.stopped:
      for m in self.metrics:
        evs.append(('dp', m))
      if self.p.get('hp', True):
        evs.append(('hp', self.metrics[0]))
    for i, d in enumerate(self.dests):
      c = self.connector(d)
      if c is None:
        continue
      t = getattr(c, 'transport', None)
      if c.state == 'connecting':
        evs.append(('conn_ok', i))
        evs.append(('conn_fail', i))
      elif c.state == 'connected' and t is not None:
        if t.closing:
          evs.append(('closed', i))
        else:
          evs.append(('conn_lost', i))
          prod = t.producer
          if prod is not None:
            evs.append(('tresume', i) if getattr(prod, 'paused', False) else ('tpause', i))
            if self.p.get('arm') and not getattr(prod, 'paused', False) and not t.pause_after:
              evs.append(('arm', i, 1))
              if self.p.get('protocol') == 'line':
                evs.append(('arm', i, 2))
    if self.reactor.clock.getDelayedCalls():
      evs.append(('tick',))
    if self.p.get('ratio_reset'):
      evs.append(('goodstats',) if self.badstats else ('badstats',))
    if self.p.get('report') and self.reports < self.p.get('max_reports', 2) and not self.stopped:
      evs.append(('report',))
    if not self.stopped and self.p.get('stop', True):
      evs.append(('stop',))
    if self.with_receivers and not self.stopped:
      if len(self.receivers) < 2:
        evs.append(('rx_connect',))
      if self.receivers:
        evs.append(('rx_disconnect',))
    return evs

  def route_ref(self, metric):
    if metric.startswith('m'):
      want = [self.dests[0]]
    elif metric.startswith('n'):
      want = [self.dests[1 % len(self.dests)]]
    else:
      want = list(self.dests)
    return [d for d in want if d in self.member]

  def ref_enqueue(self, metric, k, high=False):
    ds = self.route_ref(metric)
    if not ds:
      self.unrouted.append((metric, k))
      return
    for d in sorted(set(ds), key=self.dests.index):
      if high:
        self.q[d].insert(0, (metric, k))
      elif len(self.q[d]) >= self.hard_max:
        self.drops[d] += 1
      else:
        self.q[d].append((metric, k))

  def ref_reinject(self, items):
    for metric, k in items:
      self.ref_enqueue(metric, k)

  def ref_down(self, d, continue_trying):
    """Mirror of ReconnectingClientFactory.retry bookkeeping + carbon's dynamic-router rule."""
    if continue_trying:
      self.retries[d] += 1
    if self.p.get('dynamic') and self.retries[d] >= self.p.get('max_retries', 1) and d in self.member:
      self.member.discard(d)
      items, self.q[d] = self.q[d], []
      self.ref_reinject(items)

  def ref_up(self, d):
    self.retries[d] = 0
    if self.p.get('dynamic') and d not in self.member:
      self.member.add(d)
      items, self.unrouted = self.unrouted, []
      self.ref_reinject(items)

  def apply(self, ev):
    from twisted.python.failure import Failure
    from twisted.internet import error
    self.applied.append(ev)
    self.n += 1
    k = self.n
    kind = ev[0]
    try:
      if kind == 'dp':
        self.ref_enqueue(ev[1], k)
        self.events.metricReceived(ev[1], (1000 + k, float(k)))
      elif kind == 'hp':
        self.ref_enqueue(ev[1], k, high=True)
        self.cm.sendHighPriorityDatapoint(ev[1], (1000 + k, float(k)))
      elif kind == 'conn_ok':
        d = self.dests[ev[1]]
        c = self.connector(d)
        t = c.transport
        self.ref_up(d)
        proto = c.buildProtocol(t.getPeer())
        t.connected = True
        t.protocol = proto
        proto.makeConnection(t)
      elif kind == 'conn_fail':
        d = self.dests[ev[1]]
        c = self.connector(d)
        f = self.factory(d)
        self.ref_down(d, f.continueTrying)
        c.transport.failIfNotConnected(error.ConnectionRefusedError())
      elif kind in ('conn_lost', 'closed'):
        d = self.dests[ev[1]]
        c = self.connector(d)
        t = c.transport
        f = self.factory(d)
        reason = Failure(error.ConnectionDone() if kind == 'closed' else error.ConnectionLost())
        t.disconnected = True
        t.connected = False
        v0 = self.flush_written(d)
        if v0:
          return v0
        if kind == 'closed' and self.stopped and f is not None and not f.continueTrying and self.q[d]:
          # an orderly stop gave up on this destination (no further reconnects) and closed it with data still queued
          return ('closed-before-flush', 'after stop the connection to %r was closed for good with %r still queued' % (d, self.q[d]))
        self.ref_down(d, f.continueTrying if f is not None else False)
        t.protocol.connectionLost(reason)
        c.connectionLost(reason)
      elif kind == 'arm':
        self.transport(self.dests[ev[1]]).pause_after = ev[2]
      elif kind == 'badstats':
        # what recordMetrics() leaves behind after an interval in which the destination fell behind
        self.badstats = True
        self.state.instrumentation.prior_stats['metricsReceived'] = 1000
      elif kind == 'goodstats':
        self.badstats = False
        self.state.instrumentation.prior_stats.clear()
      elif kind == 'report':
        # the periodic instrumentation tick: the real recordMetrics() reports and clears the counters; every reported value
        # becomes a self-metric that re-enters the relay through events.metricGenerated (an ordinary datapoint that can be
        # queued, sent or discarded like any other).  Only the thin relay_record() shim is replaced, so that the generated
        # datapoints carry the harness's identities.
        self.reports += 1
        instr = self.state.instrumentation

        def shim(metric, value):
          if isinstance(value, (int, float)):
            self.reported[metric] = self.reported.get(metric, 0) + value
          self.n += 1
          kk = self.n
          full = 'carbon.relays.verif-a.%s' % metric
          self.ref_enqueue(full, kk)
          self.events.metricGenerated(full, (1000 + kk, float(kk)))
        saved = instr.relay_record
        instr.relay_record = shim
        try:
          instr.recordMetrics()
        finally:
          instr.relay_record = saved
      elif kind == 'tpause':
        self.transport(self.dests[ev[1]]).producer.pauseProducing()
      elif kind == 'tresume':
        self.transport(self.dests[ev[1]]).producer.resumeProducing()
      elif kind == 'tick':
        calls = self.reactor.clock.getDelayedCalls()
        nxt = min(c.getTime() for c in calls)
        self.reactor.clock.advance(max(0.0, nxt - self.reactor.clock.seconds()))
      elif kind == 'rx_connect':
        self.rx_connect()
        p_, t_ = self.receivers[-1]
        if (t_.producerState != 'producing') != bool(self.state.metricReceiversPaused):
          return ('new-connection-not-in-step', 'a receiver connected while metricReceiversPaused=%r is %s' % (
            self.state.metricReceiversPaused, t_.producerState))
      elif kind == 'rx_disconnect':
        self.rx_disconnect()
      elif kind == 'stop':
        self.stopped = True
        # stopService removes every destination from the router
        self.member.clear()
        try:
          self.root.stopService()
        except Exception as e:   # noqa - recorded, not a delivery-path event
          self.stop_exc = e
    except Exception as e:   # noqa
      import traceback
      return ('exception:%s:%s' % (kind, type(e).__name__), 'event %r raised %r (%s)' % (ev, e, traceback.format_exc().splitlines()[-3].strip()))
    return self.compare()

  # ---- receivers (C09) -----------------------------------------------------------------------------------------
  def rx_connect(self):
    from carbon.protocols import MetricLineReceiver
    from twisted.internet.testing import StringTransport
    p = MetricLineReceiver()
    t = StringTransport()
    p.makeConnection(t)
    self.receivers.append((p, t))

  def rx_disconnect(self):
    from twisted.python.failure import Failure
    from twisted.internet.error import ConnectionDone
    p, t = self.receivers.pop()
    p.connectionLost(Failure(ConnectionDone()))

  # ---- comparison with the reference after every event -----------------------------------------------------------
  def flush_written(self, d):
    t = self.transport(d)
    if t is None or not t.written:
      return None
    data = b''.join(t.written)
    del t.written[:]
    self.buf[d] += data
    dec = decode_pickle_stream if self.p.get('protocol', 'pickle') == 'pickle' else decode_line_stream
    try:
      msgs, self.buf[d] = dec(self.buf[d])
    except Undecodable as e:
      return ('undecodable-message', 'destination %r was sent something the receiving side cannot decode: %s' % (d, e))
    for msg in msgs:
      if len(msg) > self.p['batch']:
        return ('batch-too-large', 'a message of %d datapoints was sent to %r (MAX_DATAPOINTS_PER_MESSAGE=%d)' % (len(msg), d, self.p['batch']))
      for (m, ts, v) in msg:
        item = (m, int(v))
        if not self.q[d] or self.q[d][0] != item or ts != 1000 + int(v):
          return ('order-or-duplication', 'destination %r received %r but the head of its queue is %r (queue %r, already sent %r)' % (
            d, (m, ts, v), self.q[d][:1], self.q[d], self.sent[d][-4:]))
        self.q[d].pop(0)
        self.sent[d].append(item)
    return None

  def compare(self):
    if self.pending_violation:
      return self.pending_violation
    for d in self.dests:
      v = self.flush_written(d)
      if v:
        return v
    for d in self.dests:
      f = self.factory(d)
      if f is None:
        continue
      implq = [(m, int(dp[1])) for m, dp in f.queue]
      if implq != self.q[d]:
        return ('queue-mismatch', 'queue of %r is %r, reference %r' % (d, implq, self.q[d]))
    fake = self.cm.client_factories.get(None)
    implu = [(m, int(dp[1])) for m, dp in fake.queue]
    if implu != self.unrouted:
      return ('unrouted-mismatch', 'datapoints waiting for a destination: %r, reference %r' % (implu, self.unrouted))
    stats = self.state.instrumentation.stats
    for d in self.dests:
      name = ('%s:%d:%s' % d).replace('.', '_')
      got = stats.get('destinations.%s.fullQueueDrops' % name, 0) + self.reported.get('destinations.%s.fullQueueDrops' % name, 0)
      if got != self.drops[d]:
        return ('drop-count', 'fullQueueDrops for %r is %r (%r of them already reported by the instrumentation tick), %d datapoints '
                'were discarded' % (d, got, self.reported.get('destinations.%s.fullQueueDrops' % name, 0), self.drops[d]))
    return None

  def check(self):
    return None

  # ---- canonical state ---------------------------------------------------------------------------------------------
  def canon(self):
    vals = sorted(set(k for d in self.dests for _, k in self.q[d]) | set(k for _, k in self.unrouted))
    rank = {k: i for i, k in enumerate(vals)}
    per = []
    now = self.reactor.clock.seconds()
    for d in self.dests:
      f = self.factory(d)
      c = self.connector(d)
      t = getattr(c, 'transport', None) if c is not None else None
      proto = getattr(t, 'protocol', None) if t is not None else None
      per.append((
        tuple((m, rank[k]) for m, k in self.q[d]),
        c.state if c is not None else None,
        bool(t.closing) if t is not None else None, getattr(t, 'pause_after', 0) if t is not None else None,
        bool(getattr(proto, 'paused', False)) if proto is not None else None,
        f is not None, bool(getattr(getattr(f, 'queueFull', None), 'called', False)),
        bool(getattr(getattr(f, 'queueHasSpace', None), 'called', False)),
        min(self.retries[d], self.p.get('max_retries', 1) + 1),
        round(getattr(f, 'delay', 0.0), 3) if f is not None else None,
        bool(getattr(f, 'continueTrying', False)) if f is not None else None,
        bool(getattr(f, 'started', False)) if f is not None else None,
        bool(getattr(getattr(f, 'deferSendPending', None), 'active', lambda: False)()) if f is not None else None,
        d in self.member,
        len(self.buf[d]),
      ))
    timers = tuple(sorted(round(c.getTime() - now, 6) for c in self.reactor.clock.getDelayedCalls()))
    rx = tuple(t.producerState for p, t in self.receivers)
    rep = (self.reports, tuple(sorted(self.state.instrumentation.stats))) if self.p.get('report') else None
    return (tuple(per), timers, tuple((m, rank[k]) for m, k in self.unrouted), bool(self.state.metricReceiversPaused),
            bool(self.state.cacheTooFull), self.stopped, rx, self.badstats, rep)

  def on_new_state(self):
    """Delivery liveness (C07): in a benign environment every queue of a connected destination drains."""
    if not self.p.get('probe_delivery', True):
      return None
    v = self.quiesce()
    if v:
      return v
    for d in self.dests:
      c = self.connector(d)
      if c is not None and c.state == 'connected' and self.q[d]:
        return ('stuck-queue', 'quiescent (connected, unpaused, no timer pending) but %r still holds %r' % (d, self.q[d]))
      if c is not None and c.state == 'disconnected' and self.q[d] and not self.reactor.clock.getDelayedCalls():
        # nobody is connected, nobody will retry, nothing was counted as discarded: the datapoints are simply abandoned
        return ('abandoned-queue', 'quiescent with %r disconnected for good (no retry pending%s) while %r are still queued for it: never '
                'written, never re-routed, not counted as discarded' % (d, ', after stop' if self.stopped else '', self.q[d]))
    return None

  # ---- quiescence (C09) ---------------------------------------------------------------------------------------------
  def quiesce(self, down=()):
    """Let the environment be kind: resume paused transports, complete pending connects, fire timers.
    Destinations in `down` are unreachable from now on: their connection is lost, their connection attempts are
    refused a few times and then simply never answered."""
    refused = {}
    for i, d in enumerate(self.dests):
      if d in down:
        c = self.connector(d)
        if c is not None and c.state == 'connected':
          t = c.transport
          v = self.apply(('closed', i) if t.closing else ('conn_lost', i))
          if v:
            return v
    if self.badstats:
      v = self.apply(('goodstats',))
      if v:
        return v
    for _ in range(300):
      progressed = False
      for i, d in enumerate(self.dests):
        c = self.connector(d)
        if c is None:
          continue
        t = getattr(c, 'transport', None)
        if c.state == 'connecting' and d in down:
          if refused.get(d, 0) > self.p.get('max_retries', 1) + 1:
            continue          # the attempt hangs
          refused[d] = refused.get(d, 0) + 1
          v = self.apply(('conn_fail', i))
          progressed = True
        elif c.state == 'connecting':
          v = self.apply(('conn_ok', i))
          progressed = True
        elif c.state == 'connected' and t is not None and t.closing:
          v = self.apply(('closed', i))
          progressed = True
        elif c.state == 'connected' and t is not None and t.producer is not None and getattr(t.producer, 'paused', False):
          v = self.apply(('tresume', i))
          progressed = True
        else:
          continue
        if v:
          return v
      if self.reactor.clock.getDelayedCalls():
        v = self.apply(('tick',))
        progressed = True
        if v:
          return v
      if not progressed:
        return None
    return ('no-quiescence', 'the relay did not become quiescent within 300 environment steps')
