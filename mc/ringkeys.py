"""One metric name for every one of the 65536 ring positions, per hash type.

The table is built with the *reference* hash (mc.ref.ring) and every entry is re-checked against the
implementation's carbonHash when it is used (routing a key whose implementation hash differs from the
reference hash is itself a C06 compatibility violation and is reported there)."""
from .ref import ring as refring

_tables = {}


def table(hash_type):
  t = _tables.get(hash_type)
  if t is None:
    t = [None] * 65536
    missing = 65536
    i = 0
    h = refring.position
    while missing:
      name = 'k%d' % i
      p = h(name, hash_type)
      if t[p] is None:
        t[p] = name
        missing -= 1
      i += 1
    _tables[hash_type] = t
  return t
