"""thrx - stateless exploration of thread interleavings of real Python code.

Real ``threading.Thread``s run real carbon functions; a baton (one semaphore per thread) makes
exactly one of them run at a time, and the explorer decides at every *scheduling point* who runs
next.  Scheduling points: every source line of the *visible* code (``sys.settrace``; optionally
every bytecode of selected functions), every acquisition of a ``SchedLock``, virtual ``sleep``,
explicit ``point()`` calls, and data choices ``choose(n)`` (fault injection, random strategy).

Exploration is depth-first over choice sequences with iterative bounding of *deviations*:
a preemption (switching away from a thread that could continue) and a fault (a non-default data
choice) are budgeted separately.  Every execution runs to completion.
"""
import os
import sys
import threading
import _thread

from . import core

HORIZON = 6000


class Abort(BaseException):
  pass


class Nondeterminism(core.HarnessError):
  pass


class Thr(object):
  __slots__ = ('id', 'name', 'fn', 'sem', 'done', 'exc', 'label', 'pred', 'sleeping', 'wake_at',
               'slept_at_step', 'thread', 'request', 'answer', 'started', 'yielded')

  def __init__(self, i, name, fn):
    self.id = i
    self.name = name
    self.fn = fn
    self.sem = _thread.allocate_lock()
    self.sem.acquire()
    self.done = False
    self.exc = None
    self.label = ('start',)
    self.pred = None
    self.sleeping = False
    self.wake_at = 0.0
    self.slept_at_step = 0
    self.thread = None
    self.request = None
    self.answer = None
    self.started = False
    self.yielded = True


class SchedLock(object):
  """Scheduler-aware replacement for threading.Lock (non-reentrant)."""

  def __init__(self, sched, name='lock', reentrant=False):
    self.sched = sched
    self.name = name
    self.owner = None
    self.acquisitions = 0
    self.acq_by = {}
    self.reentrant = reentrant
    self.depth = 0

  def acquire(self, blocking=True, timeout=-1):
    s = self.sched
    t = s.me()
    if t is None:          # not under the scheduler (setup / teardown on the explorer thread)
      if self.owner is not None:
        raise core.HarnessError('SchedLock %s held during setup' % self.name)
      self.owner = 'setup'
      return True
    if self.reentrant and self.owner == t.id:
      self.depth += 1
      return True
    s.point(('acquire', self.name))
    if self.owner is not None:
      if not blocking:
        return False
      s.block(lambda: self.owner is None, ('blocked', self.name))
    self.owner = t.id
    self.depth = 1
    self.acquisitions += 1
    self.acq_by[t.id] = self.acq_by.get(t.id, 0) + 1
    s.log.append(('acq', t.id, self.name))
    return True

  def release(self):
    if self.reentrant and self.depth > 1:
      self.depth -= 1
      return
    self.depth = 0
    self.owner = None
    t = self.sched.me()
    if t is not None:
      self.sched.log.append(('rel', t.id, self.name))

  def locked(self):
    return self.owner is not None

  def __enter__(self):
    self.acquire()
    return self

  def __exit__(self, *a):
    self.release()
    return False


def replace_locks(obj, sched, prefer='lock'):
  """Replace every real threading lock found among obj's instance attributes by a scheduler-aware one
  (a real lock held by a parked thread would hang the explorer).  Returns the lock named `prefer` if
  there is one, else the first replaced, else a fresh SchedLock installed under `prefer`."""
  import threading
  lock_types = (type(threading.Lock()), type(threading.RLock()))
  found = {}
  for k, v in list(vars(obj).items()):
    if isinstance(v, lock_types):
      found[k] = SchedLock(sched, k, reentrant=isinstance(v, lock_types[1]) and lock_types[0] is not lock_types[1])
      setattr(obj, k, found[k])
  if prefer in found:
    return found[prefer]
  if found:
    return found[sorted(found)[0]]
  lk = SchedLock(sched, prefer)
  setattr(obj, prefer, lk)
  return lk


class Scheduler(object):
  """One execution."""

  def __init__(self, prefix, visible, opcode_funcs=(), expect=None, horizon=HORIZON):
    self.prefix = list(prefix)
    self.expect = expect          # [(n, label)] recorded for the prefix by the parent run
    self.visible = visible        # {abs filename: None | set(function names)}
    self.opcode_funcs = set(opcode_funcs)
    self.horizon = horizon
    self.threads = []
    self.by_ident = {}
    self.ctl = _thread.allocate_lock()
    self.ctl.acquire()
    self.now = 1000.0
    self.log = []                 # harness-visible event log (real order)
    self.points = []              # choice points: dict(n, chosen, kind, cost, label)
    self.choices = []
    self.steps = 0
    self.running = None
    self.aborting = False
    self.deadlock = False
    self.horizon_hit = False
    self.at_point = None          # callback(sched) run by the scheduler while all threads are parked
    self.state_fp = None          # callback() -> hashable, for state counting
    self.fingerprints = set()
    self.trace = []               # (thread id, label) per step, for determinism checks
    self.keep_trace = False
    self.point_violation = None

  # ---- API for harness code running inside controlled threads -------------------------------
  def me(self):
    return self.by_ident.get(_thread.get_ident())

  def time(self):
    return self.now

  def sleep(self, dt):
    if dt < 0:
      raise ValueError('sleep length must be non-negative')     # as time.sleep() does
    t = self.me()
    if t is None:
      self.now += dt
      return
    t.sleeping = True
    t.wake_at = self.now + max(0.0, dt)
    t.slept_at_step = self.steps
    self._park(t, ('sleep', round(dt, 6)), yielded=True)
    t.sleeping = False
    if self.now < t.wake_at:
      self.now = t.wake_at

  def point(self, label):
    t = self.me()
    if t is None:
      return
    self._park(t, label, yielded=False)

  def yield_point(self, label):
    """A point at which switching away is free (the thread voluntarily gives up the processor)."""
    t = self.me()
    if t is None:
      return
    self._park(t, label, yielded=True)

  def block(self, pred, label):
    t = self.me()
    t.pred = pred
    self._park(t, label, yielded=True)
    t.pred = None

  def join(self, other):
    self.block(lambda: other.done, ('join', other.id))

  def choose(self, n, label):
    """Data choice (fault injection, random strategy): 0 is the default answer."""
    t = self.me()
    if t is None or n <= 1:
      return 0
    try:
      return self._next_choice(n, 'data', label, cost=None)
    except core.HarnessError as e:
      self.error = e
      self._abort(t)
      raise Abort()

  def _park(self, t, label, yielded):
    """Scheduling point reached by thread t: decide (in this thread) who runs next."""
    t.label = label
    t.yielded = yielded
    nxt = self._schedule(t)
    if nxt is t:
      return
    if nxt is not None:
      nxt.sem.release()
    t.sem.acquire()
    if self.aborting:
      raise Abort()

  # ---- tracing ------------------------------------------------------------------------------
  def _global_trace(self, frame, event, arg):
    code = frame.f_code
    spec = self.visible.get(code.co_filename, 0)
    if spec == 0:
      return None
    if spec is not None:
      if isinstance(spec, dict):
        funcs = spec.get('funcs')
        if funcs is not None and code.co_name not in funcs:
          return None
        if spec.get('lines') is not None:
          if code.co_name in self.opcode_funcs:
            frame.f_trace_opcodes = True
          lines = spec['lines']

          def filtered(frame, event, arg, lines=lines, local=self._local_trace):
            if event == 'line' and frame.f_lineno not in lines:
              return filtered
            local(frame, event, arg)
            return filtered
          return filtered
      elif code.co_name not in spec:
        return None
    if code.co_name in self.opcode_funcs:
      frame.f_trace_opcodes = True
    return self._local_trace

  def _local_trace(self, frame, event, arg):
    if event == 'line':
      self.point(('L', os.path.basename(frame.f_code.co_filename), frame.f_lineno))
    elif event == 'opcode':
      self.point(('O', os.path.basename(frame.f_code.co_filename), frame.f_lineno, frame.f_lasti))
    return self._local_trace

  def _body(self, t):
    self.by_ident[_thread.get_ident()] = t
    t.sem.acquire()                       # wait for the first scheduling
    try:
      if self.aborting:
        return
      sys.settrace(self._global_trace)
      try:
        t.fn()
      finally:
        sys.settrace(None)
    except Abort:
      pass
    except BaseException as e:   # noqa - recorded, the harness decides what it means
      t.exc = e
    finally:
      t.done = True
      t.label = ('done',)
      if self.aborting:
        self._exit_one()
      else:
        nxt = self._schedule(None)
        if nxt is not None:
          nxt.sem.release()
        self._exit_one()

  def _exit_one(self):
    with self._exit_lock:
      self._exited += 1
      last = self._exited == len(self.threads)
    if last:
      self.ctl.release()

  # ---- the scheduler (runs on whichever thread reached a scheduling point) ----------------------
  def spawn(self, name, fn):
    t = Thr(len(self.threads), name, fn)
    self.threads.append(t)
    return t

  def _enabled(self):
    base = []
    sleepers = []
    for t in self.threads:
      if t.done:
        continue
      if t.pred is not None:
        if t.pred():
          base.append(t)
      elif t.sleeping:
        sleepers.append(t)
      else:
        base.append(t)
    en = list(base)
    for t in sleepers:
      # fairness: a sleeper may wake once somebody else has taken a step, or when nobody else can run
      if not base or self.steps > t.slept_at_step:
        en.append(t)
    return en

  def _schedule(self, running):
    """Returns the thread to run next (possibly `running` itself) or None (finished / aborted)."""
    try:
      if self.at_point is not None and self.point_violation is None:
        v = self.at_point(self)
        if v is not None:
          self.point_violation = v
      if self.state_fp is not None:
        self.fingerprints.add(hash((tuple(t.label for t in self.threads), self.state_fp())))
      en = self._enabled()
      if not en:
        if any(not t.done for t in self.threads):
          self.deadlock = True
          self._abort(running)
        return None
      en.sort(key=lambda t: t.id)
      can_continue = running is not None and running in en and not running.yielded
      if running is not None and running in en:
        en.remove(running)
        en.insert(0, running)
      if len(en) > 1:
        c = self._next_choice(len(en), 'sched', tuple(t.id for t in en), cost=1 if can_continue else 0)
      else:
        c = 0
      t = en[c]
      if self.steps >= self.horizon:
        self.horizon_hit = True
        self._abort(running)
        return None
      self.steps += 1
      if self.keep_trace:
        self.trace.append((t.id, t.label))
      return t
    except core.HarnessError as e:
      self.error = e
      self._abort(running)
      return None

  def _abort(self, initiator):
    self.aborting = True
    for t in self.threads:
      if not t.done and t is not initiator:
        t.sem.release()
    if initiator is not None and not initiator.done:
      initiator.sem.release()    # its own pending acquire() returns at once and it unwinds with Abort

  def run(self):
    self._exited = 0
    self._exit_lock = _thread.allocate_lock()
    self.error = None
    for i, t in enumerate(self.threads):
      _worker(i).submit(self._body, t)
    first = self._schedule(None)
    if first is not None:
      first.sem.release()
    if self.threads:
      if not self.ctl.acquire(True, 60):
        raise core.HarnessError('controlled threads did not terminate')
    if self.error is not None:
      raise self.error
    return self

  def _next_choice(self, n, kind, label, cost):
    i = len(self.points)
    if i < len(self.prefix):
      c = self.prefix[i]
      if self.expect is not None and i < len(self.expect):
        en, elabel = self.expect[i]
        if en != n or elabel != core.jsonable(label):
          raise Nondeterminism('replay diverged at choice point %d: recorded (%r, %r), now (%r, %r)'
                               % (i, en, elabel, n, label))
      if c >= n:
        raise Nondeterminism('replay diverged at choice point %d: choice %d of %d' % (i, c, n))
    else:
      c = 0
    if kind == 'data':
      cst = (0, 1 if c else 0)
    else:
      cst = (cost if c else 0, 0)
    self.points.append({'n': n, 'kind': kind, 'label': core.jsonable(label), 'pcost': cost, 'cost': cst})
    self.choices.append(c)
    return c


class _Worker(object):
  """Persistent OS thread that runs one controlled-thread body per execution (creating two fresh
  threads per execution costs more than the execution itself in this VM)."""

  def __init__(self):
    self.go = _thread.allocate_lock()
    self.go.acquire()
    self.job = None
    _thread.start_new_thread(self._loop, ())

  def submit(self, fn, arg):
    self.job = (fn, arg)
    self.go.release()

  def _loop(self):
    while True:
      self.go.acquire()
      fn, arg = self.job
      self.job = None
      try:
        fn(arg)
      except BaseException:   # noqa - _body never raises; belt and braces
        pass


_workers = {'pid': None, 'list': []}


def _worker(i):
  if _workers['pid'] != os.getpid():
    _workers['pid'] = os.getpid()
    _workers['list'] = []
  while len(_workers['list']) <= i:
    _workers['list'].append(_Worker())
  return _workers['list'][i]


_warmed = set()


def warm_up(harness_factory, params):
  """CPython (3.12) instruments a code object for per-opcode events lazily: the first execution that asks for
  opcode tracing of a function still misses its first events.  Throw-away executions before every exploration that
  uses opcode tracing make every later execution see the same event stream.  (Not memoised per process: an exploration
  WITHOUT opcode tracing in between lets the interpreter drop the instrumentation again - seen once as a root schedule
  that replayed with line events where the first run had opcode events.)"""
  h = harness_factory(params)
  ops = tuple(getattr(h, 'opcode_funcs', ()) or ())
  if not ops:
    return
  for _ in range(2):
    run_one(harness_factory, params, [])


def run_one(harness_factory, params, prefix, expect=None, keep_trace=False):
  """Run one execution of the harness under the given choice prefix.  Returns (sched, harness)."""
  h = harness_factory(params)
  s = Scheduler(prefix, h.visible(), opcode_funcs=getattr(h, 'opcode_funcs', ()), expect=expect,
                horizon=getattr(h, 'horizon', HORIZON))
  s.keep_trace = keep_trace
  h.setup(s)
  from . import env as _env
  _env.IN_CONTROLLED_RUN[0] = True
  _env.MODEL_MISSING[0] = None
  try:
    s.run()
  except Nondeterminism as e:
    raise Nondeterminism('%s | params=%r prefix=%r' % (e, params, list(prefix)))
  finally:
    _env.IN_CONTROLLED_RUN[0] = False
    h.teardown(s)
  if _env.MODEL_MISSING[0]:
    raise core.HarnessError('%s was called inside a controlled run of a harness that has no model of the reactor thread '
                            '(params=%r)' % (_env.MODEL_MISSING[0], params))
  return s, h


def _cost_of_prefix(points, choices, upto):
  p = f = 0
  for i in range(upto):
    c = points[i]['cost']
    p += c[0]
    f += c[1]
  return p, f


def children(points, choices, start, used, bounds):
  """Alternative prefixes branching off an execution at choice points >= start, within bounds."""
  out = []
  p0, f0 = used
  for i in range(start, len(points)):
    pt = points[i]
    for alt in range(1, pt['n']):
      if pt['kind'] == 'data':
        cost = (p0, f0 + 1)
      else:
        cost = (p0 + (pt['pcost'] or 0), f0)
      if cost[0] > bounds[0] or cost[1] > bounds[1]:
        continue
      out.append((choices[:i] + [alt], cost))
  return out


def explore_subtree(arg):
  """Worker: explore the whole subtree below one prefix (inclusive).  Returns aggregated stats."""
  factory, params, prefix, used, bounds, expect, max_violations = arg[:7]
  cap = arg[7] if len(arg) > 7 else None
  warm_up(factory, params)
  stats = new_stats()
  stats['spill'] = []
  stack = [(prefix, used, expect)]
  n = 0
  while stack:
    if cap is not None and n >= cap:
      # hand the unexplored part of this subtree back (every entry is the root of a disjoint subtree)
      stats['spill'] = [(factory, params, pre, usedc, bounds, exp, max_violations, cap) for pre, usedc, exp in stack]
      break
    pre, usedc, exp = stack.pop()
    try:
      s, h = run_one(factory, params, pre, expect=exp)
    except Nondeterminism:
      if os.environ.get('VERIF_DEBUG_DUMP'):
        import pickle
        with open(os.environ['VERIF_DEBUG_DUMP'], 'wb') as f:
          pickle.dump((params, pre, exp), f)
      raise
    n += 1
    if n % 500 == 1 and n > 1 or (n == 1 and not pre):
      # ownership of nondeterminism: the same schedule must give the same observations
      s2, h2 = run_one(factory, params, s.choices, expect=[(p['n'], p['label']) for p in s.points])
      if h2.outcome(s2) != h.outcome(s) or s2.choices != s.choices:
        raise Nondeterminism('same schedule, different observation: %r vs %r' % (h.outcome(s), h2.outcome(s2)))
    account(stats, s, h, max_violations)
    exp2 = [(p['n'], p['label']) for p in s.points]
    for child, cost in children(s.points, s.choices, len(pre), usedc, bounds):
      stack.append((child, cost, exp2[:len(child)]))
  return stats


def account(stats, s, h, max_violations=3):
  stats['executions'] += 1
  stats['steps'] += s.steps
  stats['maxpoints'] = max(stats['maxpoints'], len(s.points))
  if s.horizon_hit:
    stats['horizon'] += 1
    # fail at once: every harness treats a horizon hit as "not exhaustive" in the end, and expanding the alternatives of an
    # execution with thousands of scheduling points costs memory quadratic in its length (a tree with a loop that waits
    # for the virtual clock without sleeping once took 60 GB this way)
    raise core.HarnessError('step horizon (%d steps) hit: an execution of %s does not finish within the horizon - is there a loop '
                            'that waits for (virtual) time to pass without sleeping?' % (s.horizon, type(h).__name__))
  if s.deadlock:
    stats['deadlocks'] += 1
  out = h.outcome(s)
  key = repr(out)
  stats['outcomes'][key] = stats['outcomes'].get(key, 0) + 1
  for fp in s.fingerprints:
    stats['fingerprints'].add(hash(fp))
  for k, v in (h.obligations(s) or {}).items():
    stats['obligations'][k] = stats['obligations'].get(k, 0) + (1 if v else 0)
  v = h.verdict(s)
  if v is None and s.point_violation is not None:
    v = s.point_violation
  if v is None and s.deadlock:
    v = ('deadlock', 'no thread enabled while %s unfinished' % [t.name for t in s.threads if not t.done])
  if v is not None and len(stats['violations']) < max_violations:
    stats['violations'].append((v[0], v[1], {'choices': list(s.choices),
                                             'labels': [(p['kind'], p['label']) for p in s.points][:200]}))
  if len(stats['samples']) < 1:
    stats['samples'].append({'choices': list(s.choices)[:60], 'outcome': key[:300]})


def new_stats():
  return {'executions': 0, 'steps': 0, 'outcomes': {}, 'violations': [], 'fingerprints': set(),
          'deadlocks': 0, 'horizon': 0, 'maxpoints': 0, 'obligations': {}, 'samples': []}


def plan(arg):
  """Expand the root of an exploration breadth-first until at least `fanout` subtrees exist.
  Returns (stats of the executions run here, [explore_subtree argument tuples])."""
  factory, params, bounds, fanout, max_violations = arg
  warm_up(factory, params)
  total = new_stats()
  frontier = [([], (0, 0), None)]
  while frontier and len(frontier) < fanout:
    pre, used, exp = frontier.pop(0)
    s, h = run_one(factory, params, pre, expect=exp, keep_trace=not pre)
    if not pre:
      s2, h2 = run_one(factory, params, s.choices, expect=[(p['n'], p['label']) for p in s.points],
                       keep_trace=True)
      if h2.outcome(s2) != h.outcome(s) or s2.trace != s.trace:
        raise Nondeterminism('root schedule replayed with a different trace/outcome')
    account(total, s, h, max_violations)
    exp2 = [(p['n'], p['label']) for p in s.points]
    kids = children(s.points, s.choices, len(pre), used, bounds)
    frontier.extend((c, cost, exp2[:len(c)]) for c, cost in kids)
  tasks = [(factory, params, pre, used, bounds, exp, max_violations) for pre, used, exp in frontier]
  return total, tasks


def explore(factory, params, bounds, fanout=48, max_violations=3):
  """Explore all executions of factory(params) within bounds=(preemptions, faults).

  The root and the first levels are expanded here until at least `fanout` subtrees exist, then the
  subtrees are explored in worker processes.  Returns merged stats.
  """
  total, tasks = plan((factory, params, bounds, fanout, max_violations))
  if tasks:
    for st in core.pmap(explore_subtree, tasks, chunksize=1):
      merge(total, st)
  total['fingerprints'] = len(total['fingerprints'])
  return total


def explore_tasks(tasks, cap=400, on_result=None):
  """Run explore_subtree tasks in rounds; a task that exceeds `cap` executions spills the rest of its
  subtree into the next round (load balancing; the union of executions is unchanged)."""
  tagged = [(tag, tuple(t[:7]) + (cap,)) for tag, t in tasks]
  while tagged:
    res = core.pmap(explore_subtree, [t for _, t in tagged], chunksize=1)
    nxt = []
    for (tag, _), st in zip(tagged, res):
      for sp in st.pop('spill', []):
        nxt.append((tag, sp))
      on_result(tag, st)
    tagged = nxt


def merge(total, st):
  for k in ('executions', 'steps', 'deadlocks', 'horizon'):
    total[k] += st[k]
  total['maxpoints'] = max(total['maxpoints'], st['maxpoints'])
  for k, v in st['outcomes'].items():
    total['outcomes'][k] = total['outcomes'].get(k, 0) + v
  for k, v in st['obligations'].items():
    total['obligations'][k] = total['obligations'].get(k, 0) + v
  total['violations'].extend(st['violations'])
  total['fingerprints'] |= st['fingerprints']
  if len(total['samples']) < 3:
    total['samples'].extend(st['samples'][:1])


class Harness(object):
  """Base class for thrx harnesses."""
  horizon = HORIZON
  opcode_funcs = ()

  def visible(self):
    return {}

  def setup(self, sched):
    raise NotImplementedError

  def teardown(self, sched):
    pass

  def outcome(self, sched):
    return None

  def verdict(self, sched):
    return None

  def obligations(self, sched):
    return {}
