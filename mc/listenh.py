"""evx system for the listening side of a daemon: the real CarbonReceiverFactory / MetricLineReceiver / connection-limit
logic (checkIfAcceptingConnections) against a fake listening port with a kernel backlog, and flow-control pauses.

Events: a client arrives (it waits in the backlog until the port accepts), the port accepts the head of the backlog
(factory.buildProtocol + connectionMade), the daemon reads what a connected client has sent (only while its transport is
producing), a client that has been read leaves, receivers are paused / resumed by flow control.
Used by C01 (every datapoint a client sends is delivered exactly once - no client is accepted only to be closed) and C09
(connections made while paused are paused too and resumed with the rest; the port keeps accepting below the limit).
"""
from . import env, evx

INF = float('inf')


class FakePort(object):
  """What carbon uses of a twisted tcp.Port: pauseProducing / resumeProducing and the `paused` flag it keeps on it."""

  def __init__(self):
    self.accepting = True
    self.paused = False

  def pauseProducing(self):
    self.accepting = False

  def resumeProducing(self):
    self.accepting = True

  def __repr__(self):
    return '<port>'


class Listener(evx.System):
  def __init__(self, p):
    self.p = p

  def reset(self):
    settings = env.boot()
    env.reset_state()
    settings['MAX_RECEIVER_CONNECTIONS'] = self.p.get('max_conn', INF)
    settings['USE_FLOW_CONTROL'] = True
    settings['METRIC_CLIENT_IDLE_TIMEOUT'] = None
    settings['MIN_TIMESTAMP_RESOLUTION'] = 0
    settings['LOG_LISTENER_CONN_SUCCESS'] = bool(self.p.get('log_conn'))
    from carbon import state, events
    import carbon.protocols as P
    self.P = P
    self.state = state
    self.events = events
    self.port = FakePort()
    del state.listeningPorts[:]
    state.listeningPorts.append(self.port)
    state.connectedMetricReceiverProtocols.clear()
    self.factory = P.CarbonReceiverFactory()
    self.factory.protocol = P.MetricLineReceiver
    self.delivered = []
    events.metricReceived.addHandler(lambda m, d: self.delivered.append(m))
    self.backlog = []
    self.clients = {}       # id -> dict(proto, transport, unread, connected)
    self.next_id = 0
    self.n = 0

  def close(self):
    del self.state.listeningPorts[:]
    self.state.connectedMetricReceiverProtocols.clear()

  # ---- events -------------------------------------------------------------------------------------------------------
  def enabled(self):
    evs = []
    if self.next_id < self.p.get('clients', 3):
      evs.append(('connect',))
    if self.port.accepting and self.backlog:
      evs.append(('accept',))
    for k, c in sorted(self.clients.items()):
      if c['connected'] and c['unread'] and c['transport'].producerState == 'producing':
        evs.append(('read', k))
      if c['connected'] and not c['unread']:
        evs.append(('leave', k))
    evs.append(('resume',) if self.state.metricReceiversPaused else ('pause',))
    return evs

  def apply(self, ev):
    from twisted.internet.testing import StringTransport
    from twisted.internet.address import IPv4Address
    from twisted.python.failure import Failure
    from twisted.internet.error import ConnectionDone
    self.n += 1
    kind = ev[0]
    try:
      if kind == 'connect':
        k = self.next_id
        self.next_id += 1
        self.backlog.append(k)
        self.clients[k] = {'proto': None, 'transport': None, 'unread': True, 'connected': False}
      elif kind == 'accept':
        k = self.backlog.pop(0)
        proto = self.factory.buildProtocol(IPv4Address('TCP', '10.0.0.%d' % (k + 1), 40000 + k))
        if proto is None:
          return ('accepted-then-closed', 'client %d was accepted (the port was not paused with %d receivers connected, limit %r) '
                  'only to be closed at once: what it sent is lost' % (k, len(self.state.connectedMetricReceiverProtocols),
                                                                      self.p.get('max_conn', INF)))
        tr = StringTransport()
        c = self.clients[k]
        c['proto'], c['transport'], c['connected'] = proto, tr, True
        try:
          proto.makeConnection(tr)
        except Exception as e:   # noqa
          return ('exception:connectionMade', 'connectionMade() of client %d raised %r (twisted keeps such a connection open)' % (k, e))
        if (tr.producerState != 'producing') != bool(self.state.metricReceiversPaused):
          return ('new-connection-not-in-step', 'client %d connected while metricReceiversPaused=%r and is %s' % (
            k, self.state.metricReceiversPaused, tr.producerState))
      elif kind == 'read':
        c = self.clients[ev[1]]
        c['unread'] = False
        c['proto'].dataReceived(('client%d.metric 1 %d\n' % (ev[1], 1000 + ev[1])).encode())
      elif kind == 'leave':
        c = self.clients[ev[1]]
        c['connected'] = False
        c['proto'].connectionLost(Failure(ConnectionDone()))
      elif kind == 'pause':
        self.events.pauseReceivingMetrics()
      elif kind == 'resume':
        self.events.resumeReceivingMetrics()
    except Exception as e:   # noqa
      import traceback
      return ('exception:%s:%s' % (kind, type(e).__name__), 'event %r raised %r (%s)' % (ev, e, traceback.format_exc().splitlines()[-3].strip()))
    return self.check()

  def check(self):
    want = sorted('client%d.metric' % k for k, c in self.clients.items() if c['proto'] is not None and not c['unread'])
    if sorted(self.delivered) != want:
      return ('delivery', 'delivered %r, the daemon has read the datapoints of %r' % (sorted(self.delivered), want))
    return None

  def canon(self):
    per = tuple((k, c['connected'], c['unread'], c['transport'].producerState if c['transport'] is not None else None)
                for k, c in sorted(self.clients.items()))
    return (self.port.accepting, bool(self.port.paused), tuple(self.backlog), per, bool(self.state.metricReceiversPaused),
            len(self.state.connectedMetricReceiverProtocols))

  def on_new_state(self):
    """Quiescence: flow control lets go, the port accepts whoever it can, the daemon reads whatever it may.  Then every client
    that could be served has been served, every connected receiver is producing, and the port accepts below the limit."""
    if self.state.metricReceiversPaused:
      v = self.apply(('resume',))
      if v:
        return v
    limit = self.p.get('max_conn', INF)
    for _ in range(20):
      progressed = False
      while self.port.accepting and self.backlog:
        v = self.apply(('accept',))
        if v:
          return v
        progressed = True
      for k, c in sorted(self.clients.items()):
        if c['connected'] and c['unread'] and c['transport'].producerState == 'producing':
          v = self.apply(('read', k))
          if v:
            return v
          progressed = True
      if not progressed:
        break
    connected = [k for k, c in self.clients.items() if c['connected']]
    for k in connected:
      c = self.clients[k]
      if c['transport'].producerState != 'producing':
        return ('receiver-left-paused', 'at quiescence (receivers resumed) client %d is still %s' % (k, c['transport'].producerState))
      if c['unread']:
        return ('never-read', 'at quiescence client %d has sent data that the daemon never read' % k)
    if self.backlog and len(connected) < limit:
      return ('port-left-paused', 'at quiescence %d clients wait in the backlog although only %d of %r connections are in use' % (
        len(self.backlog), len(connected), limit))
    # clients leaving make room for the ones waiting (each newcomer is read, then leaves in its turn)
    for _ in range(3 * (len(self.clients) + 1)):
      moved = False
      for k, c in sorted(self.clients.items()):
        if c['connected'] and c['unread'] and c['transport'].producerState == 'producing':
          v = self.apply(('read', k))
          if v:
            return v
          moved = True
      for k, c in sorted(self.clients.items()):
        if c['connected'] and not c['unread']:
          v = self.apply(('leave', k))
          if v:
            return v
          moved = True
          break
      while self.port.accepting and self.backlog:
        v = self.apply(('accept',))
        if v:
          return v
        moved = True
      if not moved:
        break
    if self.backlog:
      return ('port-left-paused', 'every connected client has left, yet %d clients still wait in the backlog' % len(self.backlog))
    unread = [k for k, c in self.clients.items() if c['proto'] is not None and c['unread'] and c['connected']]
    if unread:
      return ('never-read', 'clients %r were accepted but what they sent was never read' % unread)
    return None


def job(arg):
  p, depth = arg
  return evx.bfs(Listener(p), depth)


def configs():
  return [{'max_conn': INF, 'clients': 3}, {'max_conn': 1, 'clients': 3}, {'max_conn': 2, 'clients': 3},
          {'max_conn': INF, 'clients': 2, 'log_conn': True}]


def run_in(ctx, depth):
  """Shared by C01 and C09: explore every configuration, report violations, account states/transitions."""
  from . import core
  cfgs = configs()
  S = T = 0
  for p, st in zip(cfgs, core.pmap(job, [(p, depth) for p in cfgs], fresh=True)):
    S += st['states']
    T += st['transitions']
    for key, what, hist in st['violations']:
      ctx.violation(key, '%s | listener history %r | MAX_RECEIVER_CONNECTIONS=%r' % (what, hist, p.get('max_conn')),
                    {'listener': {k: (v if v != INF else 'inf') for k, v in p.items()}, 'history': hist})
  ctx.add(states=S, transitions=T, traces_validated_against_impl=T, listener_configurations=len(cfgs), listener_depth=depth)


def replay(rep):
  p = {k: (INF if v == 'inf' else v) for k, v in rep['listener'].items()}
  sysm = Listener(p)
  sysm.reset()
  v = None
  for ev in rep['history']:
    v = sysm.apply(tuple(ev))
    print(tuple(ev), '->', v or 'ok', '| paused=%r accepting=%r backlog=%r' % (sysm.state.metricReceiversPaused, sysm.port.accepting, sysm.backlog))
    if v:
      break
  v = v or sysm.on_new_state()
  print('oracle:', v or 'holds')
  return 1 if v else 0
