"""Two-thread harness around the real carbon MetricCache (shared by C02, C10, C17).

Reactor thread: stores through CacheFeedingProcessor.process and cache queries through
CacheManagementHandler on a StringTransport.  Writer thread: cache.drain_metric().
The oracles are implementation independent: they see only call/return values, the overflow event,
and snapshots of the dict taken while every thread is parked.
"""
import math
import os
import pickle
import struct

from . import core, env, thrx

INF = float('inf')


class VTime(object):
  """Stand-in for the `time` module inside carbon modules: time() and sleep() are virtual."""

  def __init__(self, sched):
    self._s = sched

  def time(self):
    return self._s.time()

  def sleep(self, dt):
    self._s.sleep(dt)


class RefCache(object):
  """The boring reference: dict metric -> {timestamp: value} with the documented refusal rule."""

  def __init__(self, hard_max=INF, content=None):
    self.hard_max = hard_max
    self.d = {}
    for m, ts, v in (content or ()):
      self.d.setdefault(m, {})[ts] = v

  def count(self):
    return sum(len(v) for v in self.d.values())

  def copy(self):
    r = RefCache(self.hard_max)
    r.d = {m: dict(v) for m, v in self.d.items()}
    return r

  def store(self, m, ts, v):
    """Returns number of overflow signals expected (0 accepted / 1 refused)."""
    cur = self.d.get(m, {})
    if ts in cur:
      cur[ts] = v
      return 0
    if self.hard_max != INF and self.count() >= self.hard_max:
      return 1
    self.d.setdefault(m, {})[ts] = v
    return 0

  def drain(self, m):
    return sorted(self.d.pop(m, {}).items())

  def query(self, m):
    return dict(self.d.get(m, {}))

  def frozen(self):
    return {m: dict(v) for m, v in self.d.items() if v}


def linearize(ops, ref0, final_content):
  """Brute-force linearizability: ops = list of dicts(thread, call, ret, kind, args, result) in
  two sequential threads; find an order consistent with real time in which the reference reproduces
  every result and the final content.  Returns None if one exists, else a description."""
  threads = {}
  for op in ops:
    if op['kind'] == 'bulk' and op.get('result') is not None:
      # a bulk query reads each metric at its own instant inside the call: the property speaks of
      # "a cache query for its metric", so each per-metric answer is linearised independently
      for m in op['args'][0]:
        threads[('bulk', op['idx'], m)] = [dict(op, kind='query', args=(m,), result=op['result'].get(m),
                                                thread=('bulk', op['idx'], m))]
      continue
    threads.setdefault(op['thread'], []).append(op)
  tids = sorted(threads, key=repr)
  seqs = [threads[t] for t in tids]
  fail = [None]

  def step(idx, ref):
    if all(idx[k] == len(seqs[k]) for k in range(len(seqs))):
      if ref.frozen() == final_content:
        return True
      fail[0] = 'final cache content %r differs from reference %r' % (final_content, ref.frozen())
      return False
    for k in range(len(seqs)):
      if idx[k] == len(seqs[k]):
        continue
      op = seqs[k][idx[k]]
      # real-time order: no other pending op may have returned before this one was called
      ok = True
      for j in range(len(seqs)):
        if j != k and idx[j] < len(seqs[j]) and seqs[j][idx[j]]['ret'] < op['call']:
          ok = False
          break
      if not ok:
        continue
      r = ref.copy()
      good = apply_ref(r, op)
      if good is True:
        nidx = list(idx)
        nidx[k] += 1
        if step(nidx, r):
          return True
      else:
        fail[0] = good
    return False
  if step([0] * len(seqs), ref0.copy()):
    return None
  return fail[0] or 'no linearization'


def apply_ref(ref, op):
  kind = op['kind']
  if kind == 'store':
    m, ts, v = op['args']
    want = ref.store(m, ts, v)
    if op['result'] != want:
      return 'store%r signalled overflow %r times, reference expects %r' % (op['args'], op['result'], want)
    return True
  if kind == 'drain':
    m, dps = op['result']
    if m is None:
      return True if not dps else 'drain returned (None, %r)' % (dps,)
    want = ref.drain(m)
    if list(dps) != want:
      return 'drain returned %r for %s, reference holds %r' % (dps, m, want)
    return True
  if kind == 'query':
    got = op['result']
    want = ref.query(op['args'][0])
    if got != want:
      return 'cache-query(%s) returned %r, reference holds %r' % (op['args'][0], got, want)
    return True
  if kind == 'bulk':
    for m in op['args'][0]:
      if op['result'].get(m) != ref.query(m):
        return 'cache-query-bulk[%s] returned %r, reference holds %r' % (m, op['result'].get(m), ref.query(m))
    return True
  return 'unknown op'


class CacheHarness(thrx.Harness):
  def __init__(self, p):
    self.p = p
    self.ops = []
    self.overflow = 0
    self.point_bad = None
    self.snap_at_acq = []
    self.exceptions = []

  def visible(self):
    lib = os.path.join(env.REPO, 'lib', 'carbon')
    vis = {os.path.join(lib, 'cache.py'): None}
    if self.p.get('see_query', True):
      vis[os.path.join(lib, 'protocols.py')] = {'stringReceived'}
    return vis

  @property
  def opcode_funcs(self):
    return tuple(self.p.get('opcode', ()))

  # ---- set-up ---------------------------------------------------------------------------------
  def setup(self, s):
    p = self.p
    settings = env.boot()
    env.reset_state()
    settings['CACHE_WRITE_STRATEGY'] = p['strategy']
    settings['MAX_CACHE_SIZE'] = p.get('max_cache') or INF
    settings['USE_FLOW_CONTROL'] = bool(p.get('flow'))
    settings['MIN_TIMESTAMP_LAG'] = p.get('lag', 0)
    env.apply_daemon_cache_limits(settings, p.get('conf_variant', 'base'))
    self.hard_max = self.property_hard_max()
    import carbon.cache
    from carbon import events
    self.vt = VTime(s)
    carbon.cache.time = self.vt
    carbon.cache.choice = lambda seq: seq[s.choose(len(seq), 'random')]
    self.mod = carbon.cache
    self.proc = carbon.cache.CacheFeedingProcessor()
    self.cache = self.proc.cache
    self.lock = thrx.replace_locks(self.cache, s)
    events.cacheOverflow.addHandler(self._on_overflow)
    for m, ts, v in p.get('init', ()):
      self.cache.store(m, (ts, v))
    self.ref0 = RefCache(self.hard_max, p.get('init', ()))
    self.sched = s
    s.at_point = self.at_point
    s.state_fp = self.fingerprint
    self.handler = None
    if any(op[0] in ('query', 'bulk') for op in p['reactor']):
      from carbon.protocols import CacheManagementHandler
      from twisted.internet.testing import StringTransport
      self.handler = CacheManagementHandler()
      self.transport = StringTransport()
      self.handler.makeConnection(self.transport)
    s.spawn('reactor', self.reactor_body)
    s.spawn('writer', self.writer_body)

  def property_hard_max(self):
    """The bound the *property* states: MAX_CACHE_SIZE, or 105% of it under flow control."""
    mx = self.p.get('max_cache')
    if not mx:
      return INF
    return mx * 1.05 if self.p.get('flow') else mx

  def teardown(self, s):
    from carbon import events
    import time as real_time
    import random
    events.cacheOverflow.removeHandler(self._on_overflow)
    self.mod.time = real_time
    self.mod.choice = random.choice

  def _on_overflow(self):
    self.overflow += 1

  # ---- thread bodies --------------------------------------------------------------------------
  def _do(self, tid, idx, kind, args, fn):
    s = self.sched
    s.point(('op', tid, idx))
    op = {'thread': tid, 'idx': idx, 'kind': kind, 'args': args, 'call': len(s.log), 'result': None,
          'exc': None, 'snaps': [], 'acq0': self.lock.acq_by.get(tid, 0)}
    s.log.append(('call', tid, idx))
    self.ops.append(op)
    self.current_op[tid] = op
    try:
      op['result'] = fn()
    except thrx.Abort:
      raise
    except Exception as e:   # noqa
      op['exc'] = e
      self.exceptions.append((kind, args, repr(e)))
    op['ret'] = len(s.log)
    s.log.append(('ret', tid, idx))
    self.current_op[tid] = None
    return op

  current_op = None

  def reactor_body(self):
    if self.current_op is None:
      self.current_op = {}
    for i, op in enumerate(self.p['reactor']):
      if op[0] == 'store':
        _, m, ts, v = op

        def f(m=m, ts=ts, v=v):
          before = self.overflow
          c = self.cache
          w0 = self.lock.acq_by.get(1, 0)
          pre = (len(c), {k: dict(x) for k, x in dict.items(c) if x}, sorted(dict.keys(c)))
          self.proc.process(m, (ts, v))
          post = (len(c), {k: dict(x) for k, x in dict.items(c) if x}, sorted(dict.keys(c)))
          refused = self.overflow - before
          if refused and self.lock.acq_by.get(1, 0) == w0 and pre != post:
            self.current_op[0]['refusal_side_effect'] = (
              'refused store(%r,%r) changed the cache: metric count %d -> %d, metrics %r -> %r, contents %r -> %r'
              % (m, ts, pre[0], post[0], pre[2], post[2], pre[1], post[1]))
          return refused
        self._do(0, i, 'store', (m, ts, v), f)
      elif op[0] == 'query':
        self._do(0, i, 'query', (op[1],), lambda m=op[1]: self._query({'type': 'cache-query', 'metric': m})['datapoints'])
      elif op[0] == 'bulk':
        self._do(0, i, 'bulk', (tuple(op[1]),),
                 lambda ms=op[1]: self._query({'type': 'cache-query-bulk', 'metrics': list(ms)})['datapointsByMetric'])
      elif op[0] == 'advance':
        self.sched.now += op[1]

  def _query(self, req):
    body = pickle.dumps(req, protocol=2)
    self.transport.clear()
    self.handler.dataReceived(struct.pack('!L', len(body)) + body)
    raw = self.transport.value()
    (n,) = struct.unpack('!L', raw[:4])
    res = pickle.loads(raw[4:4 + n])
    if 'datapoints' in res:
      res['datapoints'] = dict(res['datapoints'])
    if 'datapointsByMetric' in res:
      res['datapointsByMetric'] = {m: dict(v) for m, v in res['datapointsByMetric'].items()}
    return res

  def writer_body(self):
    if self.current_op is None:
      self.current_op = {}
    for i in range(self.p['writer']):
      self._do(1, i, 'drain', (), self.cache.drain_metric)

  # ---- observation while everybody is parked ----------------------------------------------------
  def content(self):
    return {m: dict(v) for m, v in dict.items(self.cache) if v}

  def at_point(self, s):
    c = self.cache
    total = sum(map(len, dict.values(c)))
    # snapshot for the drain oracles: taken when the writer has just acquired the lock
    if self.lock.owner == 1 and self.current_op and self.current_op.get(1) is not None:
      op = self.current_op[1]
      if len(op['snaps']) < self.lock.acq_by.get(1, 0) - op['acq0']:
        op['snaps'].append((s.now, {m: (len(v), min(v) if v else None) for m, v in dict.items(c)}))
    if self.hard_max != INF and total > math.ceil(self.hard_max):
      return ('bound-exceeded', 'cache holds %d datapoints, hard limit %s' % (total, self.hard_max))
    if self.lock.owner is None and c.size != total:
      return ('size-drift', 'lock free but cache.size=%r while %d datapoints are held' % (c.size, total))
    return None

  def fingerprint(self):
    c = self.cache
    return (c.size, self.lock.owner, dict.__repr__(c))

  # ---- verdicts -----------------------------------------------------------------------------------
  _outcome = None

  def outcome(self, s):
    if self._outcome is None:
      self._outcome = self._compute_outcome(s)
    return self._outcome

  def _compute_outcome(self, s):
    return (tuple((o['kind'], repr(o['result']), repr(o['exc'])) for o in sorted(self.ops, key=lambda o: (o['thread'], o['idx']))),
            tuple(sorted((m, tuple(sorted(v.items()))) for m, v in self.content().items())), s.deadlock)

  def obligations(self, s):
    res = {}
    # was the reactor preempted inside the writer's choose->pop window, and vice versa?
    drains = [o for o in self.ops if o['kind'] == 'drain']
    stores = [o for o in self.ops if o['kind'] == 'store']
    res['store_overlaps_drain'] = any(st['call'] < d['ret'] and d['call'] < st['ret'] for st in stores for d in drains)
    res['refused_store'] = any(o['result'] for o in stores if o['exc'] is None)
    res['nonempty_drain'] = any(o['exc'] is None and o['result'] and o['result'][1] for o in drains)
    return res

  def verdict(self, s):
    oracles = self.p.get('oracles', ('c02',))
    if s.horizon_hit:
      return None
    unfinished = [o for o in self.ops if 'ret' not in o]
    if 'c17' in oracles and self.exceptions:
      k, a, e = self.exceptions[0]
      return ('exception:%s:%s' % (self.p['strategy'], e.split('(')[0]), '%s%r raised %s' % (k, a, e))
    if s.deadlock or unfinished:
      return None   # reported by the explorer as deadlock
    if ('c02' in oracles or 'c10' in oracles) and not self.exceptions:
      bad = linearize(list(self.ops), self.ref0, self.content())
      if bad is not None:
        kind = 'refusal' if 'overflow' in bad else 'conservation'
        return (kind, bad)
      if self.cache.size != sum(len(v) for v in self.content().values()):
        return ('size-drift', 'final cache.size=%r, datapoints held=%d' % (
          self.cache.size, sum(len(v) for v in self.content().values())))
    if 'c10' in oracles and not self.exceptions:
      v = self.check_refusals()
      if v:
        return v
    if 'c17' in oracles:
      v = self.check_drains(s)
      if v:
        return v
    return None

  # -- C10: a refused store leaves contents AND the metric count unchanged -------------------------
  def check_refusals(self):
    # evaluated on the final state only when nothing else ran concurrently is too weak; instead the
    # reactor body records len(cache) around every store (see store wrapper below)
    for o in self.ops:
      if o['kind'] == 'store' and o.get('refusal_side_effect'):
        return ('refusal-side-effect', o['refusal_side_effect'])
    return None

  # -- C17 ------------------------------------------------------------------------------------------
  def check_drains(self, s):
    strat = self.p['strategy']
    lag = self.p.get('lag', 0)
    drains = sorted((o for o in self.ops if o['kind'] == 'drain'), key=lambda o: o['idx'])
    for o in drains:
      if o['exc'] is not None or not o['snaps']:
        continue
      m, dps = o['result']
      now_first, first = o['snaps'][0]
      now_last, last = o['snaps'][-1]
      holders_last = [k for k, (n, _) in last.items() if n]
      if m is not None and not dps and [k for k in holders_last if k != m]:
        return ('empty-drain:' + strat, 'drain returned (%r, []) while %r hold datapoints' % (m, holders_last))
      if m is not None and dps and strat in ('max', 'bucketmax'):
        mx = max(n for n, _ in first.values())
        if first.get(m, (0, None))[0] != mx:
          return ('not-max:' + strat, 'drain chose %r holding %d datapoints while the maximum was %d (%r)'
                  % (m, first.get(m, (0, None))[0], mx, first))
      if m is not None and dps and strat == 'timesorted' and lag:
        oldest = first.get(m, (0, None))[1]
        if oldest is not None and not (now_first - oldest > lag):
          return ('lag:' + strat, 'drained %r whose oldest timestamp %r is not older than the lag %r at %r'
                  % (m, oldest, lag, now_first))
    if strat in ('sorted', 'timesorted', 'naive'):
      v = self.check_passes(drains, strat, lag)
      if v:
        return v
    return self.check_completeness(s)

  def check_passes(self, drains, strat, lag):
    members = None
    drained = set()
    for o in drains:
      if o['exc'] is not None or not o['snaps']:
        members = None
        drained = set()
        continue
      m, dps = o['result']
      now_first, first = o['snaps'][0]
      if members is None:
        members = set(k for k, (n, oldest) in first.items()
                      if n and (strat != 'timesorted' or not lag or now_first - oldest > lag))
        drained = set()
      if m is None:
        members = None
        continue
      if m in drained and (members - drained):
        return ('pass-discipline:' + strat, '%r drained a second time while %r (present when the pass began) '
                'still wait' % (m, sorted(members - drained)))
      drained.add(m)
      if members <= drained:
        members = None
    return None

  def check_completeness(self, s):
    """With no new input, repeated draining hands out every cached datapoint (explorer thread)."""
    c = self.cache
    s.now += 10 ** 6     # far beyond any lag
    held = self.content()
    got = {}
    budget = 4 * (len(dict.keys(c)) + 2) + 4
    nones = 0
    for _ in range(budget):
      if not any(len(v) for v in dict.values(c)):
        break
      try:
        m, dps = c.drain_metric()
      except Exception as e:   # noqa
        return ('exception:%s:%s' % (self.p['strategy'], type(e).__name__),
                'drain_metric raised %r with %r still cached' % (e, self.content()))
      if m is None:
        nones += 1
        if nones > 2:
          break
        continue
      if not dps and any(len(v) for k, v in dict.items(c) if k != m):
        return ('empty-drain:' + self.p['strategy'], 'drain returned (%r, []) while %r hold datapoints'
                % (m, [k for k, v in dict.items(c) if v]))
      if m in got:
        return ('starvation:' + self.p['strategy'], 'quiescent draining returned %r twice' % m)
      got[m] = dict(dps)
    left = self.content()
    if left:
      return ('starvation:' + self.p['strategy'], 'with no new input, repeated draining never hands out %r' % (left,))
    if got != held:
      return ('conservation', 'quiescent draining returned %r, cache held %r' % (got, held))
    return None


def make(params):
  return CacheHarness(params)


# ---- programs and job running -----------------------------------------------------------------------

def covering_programs(menu, length):
  """Deterministic covering set of op sequences: every (position, op) and every ordered pair
  (op_a somewhere before op_b) occurs; at least one store per program.  Simplest first."""
  import itertools
  progs = [p for p in itertools.product(range(len(menu)), repeat=length)
           if any(menu[i][0] == 'store' for i in p)]
  need = set()
  for pos in range(length):
    for i in range(len(menu)):
      need.add(('pos', pos, i))
  for i in range(len(menu)):
    for j in range(len(menu)):
      need.add(('pair', i, j))

  def feats(p):
    f = set(('pos', k, i) for k, i in enumerate(p))
    for a in range(length):
      for b in range(a + 1, length):
        f.add(('pair', p[a], p[b]))
    return f
  chosen = []
  while need:
    best = max(progs, key=lambda p: (len(feats(p) & need), [-x for x in p]))
    got = feats(best) & need
    if not got:
      break
    need -= got
    chosen.append(best)
  return [materialize(menu, p) for p in chosen]


def materialize(menu, idxs):
  out = []
  for k, i in enumerate(idxs):
    op = menu[i]
    if op[0] == 'store':
      out.append(('store', op[1], op[2], float(k + 1)))
    else:
      out.append(op)
  return out


def _phase1(arg):
  (params, bounds), big = arg
  if big:
    return thrx.plan((make, params, bounds, 24, 3))
  st = thrx.explore(make, params, bounds, fanout=10 ** 9)
  return st, []


def explore_job(job):
  params, bounds = job
  st = thrx.explore(make, params, bounds, fanout=10 ** 9)
  st['fingerprints'] = st['fingerprints']
  return st


TSMAP = {1: 1.75, 2: 1.25, 3: 1.5}


def fractional_timestamps(params):
  """Timestamps are opaque to the cache and the writer except for their order (and, under MIN_TIMESTAMP_LAG, their
  distance from the clock).  Jobs without a lag therefore use sub-second timestamps that share one whole second and
  arrive newest-first where the program says 1 then 2: anything that compares or keys on int(timestamp) shows."""
  if params.get('lag') or params.get('integer_timestamps'):
    return params
  def conv(op):
    if isinstance(op, (list, tuple)) and len(op) >= 3 and op[0] == 'store':
      return (op[0], op[1], TSMAP.get(op[2], op[2])) + tuple(op[3:])
    return op
  out = dict(params)
  out['init'] = [(m, TSMAP.get(ts, ts), v) for m, ts, v in params.get('init', ())]
  out['reactor'] = [conv(op) for op in params.get('reactor', ())]
  return out


def run_jobs(ctx, jobs, prop, required=('store_overlaps_drain', 'nonempty_drain')):
  """jobs: list of (params, (preemptions, faults)).  Aggregates into ctx; returns merged stats."""
  jobs = [(fractional_timestamps(j[0]), j[1]) for j in jobs]
  jobs = core.seeded_order(jobs, ctx.seed)
  from . import daemonconf
  daemonconf.prefetch([(j[0].get('max_cache') or INF, bool(j[0].get('flow')), j[0].get('conf_variant', 'base')) for j in jobs])
  # phase 1: small jobs run whole; big jobs (>= 2 preemptions) are only planned (root expanded into subtrees)
  def is_big(j):
    return j[1][0] >= 2
  phase1 = core.pmap(_phase1, [(j, is_big(j)) for j in jobs], chunksize=1)
  results = [None] * len(jobs)
  tasks = []
  for i, (st, sub) in enumerate(phase1):
    results[i] = st
    for t in sub:
      tasks.append((i, t))
  # phase 2: all subtrees of all big jobs, flattened for load balance
  thrx.explore_tasks(tasks, cap=300, on_result=lambda i, st: thrx.merge(results[i], st))
  for st in results:
    if isinstance(st['fingerprints'], set):
      st['fingerprints'] = len(st['fingerprints'])
  order = list(range(len(jobs)))
  tot = {'executions': 0, 'steps': 0, 'states': 0, 'outcomes': 0, 'deadlocks': 0, 'horizon': 0,
         'obligations': {}, 'by_bound': {}}
  single_outcome_jobs = 0
  for i, st in zip(order, results):
    params, bounds = jobs[i]
    tot['executions'] += st['executions']
    tot['steps'] += st['steps']
    tot['states'] += st['fingerprints']
    tot['outcomes'] += len(st['outcomes'])
    tot['deadlocks'] += st['deadlocks']
    tot['horizon'] += st['horizon']
    b = 'preemptions<=%d' % bounds[0]
    tot['by_bound'][b] = tot['by_bound'].get(b, 0) + st['executions']
    for k, v in st['obligations'].items():
      tot['obligations'][k] = tot['obligations'].get(k, 0) + v
    if bounds[0] >= 1 and len(st['outcomes']) < 2:
      single_outcome_jobs += 1
    for key, what, rep in st['violations']:
      ctx.violation(key, '%s | strategy=%s max_cache=%s flow=%s lag=%s init=%r reactor=%r drains=%d' % (
        what, params['strategy'], params.get('max_cache'), params.get('flow'), params.get('lag', 0),
        params.get('init', []), params['reactor'], params['writer']),
        {'engine': 'thrx', 'params': params, 'choices': rep['choices'], 'labels': rep['labels'][-40:]})
    if st['samples']:
      ctx.sample({'strategy': params['strategy'], 'reactor': params['reactor'], 'drains': params['writer'],
                  'bounds': bounds, 'schedule': st['samples'][0]['choices'], 'outcome': st['samples'][0]['outcome']})
  if tot['horizon']:
    raise core.HarnessError('%s: step horizon hit in %d executions - exploration not exhaustive' % (prop, tot['horizon']))
  for k in required:
    if not tot['obligations'].get(k):
      raise core.HarnessError('%s: coverage obligation %s never met - vacuous exploration' % (prop, k))
  ctx.add(states=tot['states'], transitions=tot['steps'], traces_validated_against_impl=tot['executions'],
          executions=tot['executions'], explorations=len(jobs), distinct_outcomes=tot['outcomes'],
          executions_by_bound=tot['by_bound'], obligations_met=tot['obligations'],
          explorations_with_single_outcome=single_outcome_jobs, deadlocks=tot['deadlocks'],
          space_digest=core.digest(sorted(repr(j) for j in jobs)))
  return tot


def replay_schedule(path):
  import json
  body = json.load(open(path))
  rep = body['replay']
  params = rep['params']
  params['init'] = [tuple(x) for x in params.get('init', [])]
  params['reactor'] = [tuple(tuple(y) if isinstance(y, list) else y for y in x) for x in params['reactor']]
  params['oracles'] = tuple(params.get('oracles', ('c02',)))
  out = []
  for _ in range(2):
    s, h = thrx.run_one(make, params, rep['choices'], keep_trace=True)
    out.append((h.outcome(s), h.verdict(s) or s.point_violation or (('deadlock', 'deadlock') if s.deadlock else None)))
  if out[0] != out[1]:
    print('NONDETERMINISTIC replay: %r vs %r' % (out[0], out[1]))
    return 2
  print('params:', params)
  print('schedule:', rep['choices'])
  for tid, label in s.trace[-60:]:
    print('   thread %d at %r' % (tid, label))
  print('outcome:', out[0][0])
  print('oracle:', out[0][1] or 'holds')
  return 1 if out[0][1] else 0
