"""A tiny pickle assembler (independent of the pickle module's Pickler) for hostile and benign programs."""
import struct


def s(text):
  b = text.encode('utf-8')
  if len(b) < 256:
    return b'\x8c' + bytes([len(b)]) + b          # SHORT_BINUNICODE
  return b'X' + struct.pack('<I', len(b)) + b      # BINUNICODE


def f(x):
  return b'G' + struct.pack('>d', x)               # BINFLOAT


def i(n):
  if 0 <= n < 256:
    return b'K' + bytes([n])
  if -2 ** 31 <= n < 2 ** 31:
    return b'J' + struct.pack('<i', n)
  raw = n.to_bytes((n.bit_length() + 8) // 8, 'little', signed=True)
  return b'\x8a' + bytes([len(raw)]) + raw         # LONG1


def tup(*items):
  return b'(' + b''.join(items) + b't'


def lst(*items):
  return b']' + b'(' + b''.join(items) + b'e'


def prog(body, proto=2):
  if proto == 0:
    return body + b'.'
  if proto >= 4:
    return b'\x80' + bytes([proto]) + b'\x95' + struct.pack('<Q', len(body) + 1) + body + b'.'
  return b'\x80' + bytes([proto]) + body + b'.'


def frame(payload):
  return struct.pack('!I', len(payload)) + payload


# ---- ways of pushing a global (one object on the stack) ------------------------------------------------
def g_global(module, name):
  return b'c' + module.encode('utf-8') + b'\n' + name.encode('utf-8') + b'\n'


def g_stack_global(module, name):
  return s(module) + s(name) + b'\x93'


# ---- ways of calling / instantiating through a global ------------------------------------------------------
def call_routes(module, func, cls, old, ext_codes):
  r = {}
  r['REDUCE'] = g_global(module, func) + tup(i(1)) + b'R'
  r['REDUCE/stack_global'] = g_stack_global(module, func) + tup(i(1)) + b'R'
  r['INST'] = b'(' + i(1) + b'i' + module.encode() + b'\n' + old.encode() + b'\n'
  r['OBJ'] = b'(' + g_global(module, old) + i(1) + b'o'
  r['NEWOBJ'] = g_global(module, cls) + tup(i(1)) + b'\x81'
  r['NEWOBJ_EX'] = g_global(module, cls) + tup(i(1)) + b'}' + b'\x92'
  r['BUILD'] = g_global(module, cls) + b')' + b'\x81' + b'}' + s('k') + i(1) + b's' + b'b'
  r['BUILD/reduce'] = g_global(module, func) + b')' + b'R' + b'}' + b'b'
  for name, code in ext_codes.items():
    if code < 256:
      r['EXT1/' + name] = b'\x82' + bytes([code]) + (tup(i(1)) + b'R' if name == 'fire' else b'')
    if code < 65536:
      r['EXT2/' + name] = b'\x83' + struct.pack('<H', code) + (tup(i(1)) + b'R' if name == 'fire' else b'')
    r['EXT4/' + name] = b'\x84' + struct.pack('<i', code) + (tup(i(1)) + b'R' if name == 'fire' else b'')
  return r
