"""A tiny pickle assembler (independent of the pickle module's Pickler) for hostile and benign programs."""
import struct


def s(text):
  b = text.encode('utf-8')
  if len(b) < 256:
    return b'\x8c' + bytes([len(b)]) + b          # SHORT_BINUNICODE
  return b'X' + struct.pack('<I', len(b)) + b      # BINUNICODE


def f(x):
  return b'G' + struct.pack('>d', x)               # BINFLOAT


def i(n):
  if 0 <= n < 256:
    return b'K' + bytes([n])
  if -2 ** 31 <= n < 2 ** 31:
    return b'J' + struct.pack('<i', n)
  raw = n.to_bytes((n.bit_length() + 8) // 8, 'little', signed=True)
  return b'\x8a' + bytes([len(raw)]) + raw         # LONG1


def tup(*items):
  return b'(' + b''.join(items) + b't'


def lst(*items):
  return b']' + b'(' + b''.join(items) + b'e'


def prog(body, proto=2):
  if proto == 0:
    return body + b'.'
  if proto >= 4:
    return b'\x80' + bytes([proto]) + b'\x95' + struct.pack('<Q', len(body) + 1) + body + b'.'
  return b'\x80' + bytes([proto]) + body + b'.'


def frame(payload):
  return struct.pack('!I', len(payload)) + payload


# ---- ways of pushing a global (one object on the stack) ------------------------------------------------
def g_global(module, name):
  return b'c' + module.encode('utf-8') + b'\n' + name.encode('utf-8') + b'\n'


def g_stack_global(module, name):
  return s(module) + s(name) + b'\x93'


# ---- ways of calling / instantiating through a global ------------------------------------------------------
def call_routes(module, func, cls, old, ext_codes):
  r = {}
  r['REDUCE'] = g_global(module, func) + tup(i(1)) + b'R'
  r['REDUCE/stack_global'] = g_stack_global(module, func) + tup(i(1)) + b'R'
  r['INST'] = b'(' + i(1) + b'i' + module.encode() + b'\n' + old.encode() + b'\n'
  r['OBJ'] = b'(' + g_global(module, old) + i(1) + b'o'
  r['NEWOBJ'] = g_global(module, cls) + tup(i(1)) + b'\x81'
  r['NEWOBJ_EX'] = g_global(module, cls) + tup(i(1)) + b'}' + b'\x92'
  r['BUILD'] = g_global(module, cls) + b')' + b'\x81' + b'}' + s('k') + i(1) + b's' + b'b'
  r['BUILD/reduce'] = g_global(module, func) + b')' + b'R' + b'}' + b'b'
  for name, code in ext_codes.items():
    if code < 256:
      r['EXT1/' + name] = b'\x82' + bytes([code]) + (tup(i(1)) + b'R' if name == 'fire' else b'')
    if code < 65536:
      r['EXT2/' + name] = b'\x83' + struct.pack('<H', code) + (tup(i(1)) + b'R' if name == 'fire' else b'')
    r['EXT4/' + name] = b'\x84' + struct.pack('<i', code) + (tup(i(1)) + b'R' if name == 'fire' else b'')
  return r


# ---- one representative instance of each of the 68 pickle opcodes (small, well-formed arguments) -------
OPCODES = [
  ('INT', b'I7\n'), ('BININT', b'J\x07\x00\x00\x00'), ('BININT1', b'K\x07'), ('BININT2', b'M\x07\x00'),
  ('LONG', b'L7L\n'), ('LONG1', b'\x8a\x01\x07'), ('LONG4', b'\x8b\x01\x00\x00\x00\x07'),
  ('STRING', b"S'ab'\n"), ('BINSTRING', b'T\x02\x00\x00\x00ab'), ('SHORT_BINSTRING', b'U\x02ab'),
  ('BINBYTES', b'B\x02\x00\x00\x00ab'), ('SHORT_BINBYTES', b'C\x02ab'),
  ('BINBYTES8', b'\x8e\x02\x00\x00\x00\x00\x00\x00\x00ab'), ('BYTEARRAY8', b'\x96\x02\x00\x00\x00\x00\x00\x00\x00ab'),
  ('NEXT_BUFFER', b'\x97'), ('READONLY_BUFFER', b'\x98'),
  ('NONE', b'N'), ('NEWTRUE', b'\x88'), ('NEWFALSE', b'\x89'),
  ('UNICODE', b'Vab\n'), ('SHORT_BINUNICODE', b'\x8c\x02ab'), ('BINUNICODE', b'X\x02\x00\x00\x00ab'),
  ('BINUNICODE8', b'\x8d\x02\x00\x00\x00\x00\x00\x00\x00ab'),
  ('FLOAT', b'F1.5\n'), ('BINFLOAT', b'G?\xf8\x00\x00\x00\x00\x00\x00'),
  ('EMPTY_LIST', b']'), ('APPEND', b'a'), ('APPENDS', b'e'), ('LIST', b'l'),
  ('EMPTY_TUPLE', b')'), ('TUPLE', b't'), ('TUPLE1', b'\x85'), ('TUPLE2', b'\x86'), ('TUPLE3', b'\x87'),
  ('EMPTY_DICT', b'}'), ('DICT', b'd'), ('SETITEM', b's'), ('SETITEMS', b'u'),
  ('EMPTY_SET', b'\x8f'), ('ADDITEMS', b'\x90'), ('FROZENSET', b'\x91'),
  ('POP', b'0'), ('DUP', b'2'), ('MARK', b'('), ('POP_MARK', b'1'),
  ('GET', b'g0\n'), ('BINGET', b'h\x00'), ('LONG_BINGET', b'j\x00\x00\x00\x00'),
  ('PUT', b'p0\n'), ('BINPUT', b'q\x00'), ('LONG_BINPUT', b'r\x00\x00\x00\x00'), ('MEMOIZE', b'\x94'),
  ('EXT1', b'\x82\x01'), ('EXT2', b'\x83\x01\x00'), ('EXT4', b'\x84\x01\x00\x00\x00'),
  ('GLOBAL', b'cbuiltins\nobject\n'), ('STACK_GLOBAL', b'\x93'),
  ('REDUCE', b'R'), ('BUILD', b'b'), ('INST', b'ibuiltins\nobject\n'), ('OBJ', b'o'),
  ('NEWOBJ', b'\x81'), ('NEWOBJ_EX', b'\x92'),
  ('PROTO', b'\x80\x02'), ('STOP', b'.'), ('FRAME', b'\x95\x00\x00\x00\x00\x00\x00\x00\x00'),
  ('PERSID', b'Pab\n'), ('BINPERSID', b'Q'),
]
assert len(OPCODES) == 68
