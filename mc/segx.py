"""segx - explicit-state search over all segmentations of a byte stream fed to a real receiver.

State = (offset p into the stream, canonical receiver state).  Transition = feed S[p:q] for any
q > p.  If every offset has exactly one reachable canonical state, then by induction over the cut set
all 2^(N-1) segmentations of S end in the same state; this needs N(N+1)/2 transitions instead of
2^(N-1) executions.  In addition (no state capture involved) every segmentation with at most k cuts
and the byte-by-byte segmentation are executed and compared on the observable outcome only.
"""
import itertools

from . import core, env


class Receiver(object):
  """A fresh real protocol instance on a StringTransport, sharing one recorder per process."""
  _shared = {}

  @classmethod
  def shared(cls):
    sh = cls._shared
    if sh.get('pid') != core.os.getpid():
      env.boot()
      env.reset_state()
      from carbon import events, protocols, instrumentation
      from twisted.python import log as tlog
      sh.clear()
      sh['pid'] = core.os.getpid()
      sh['delivered'] = []
      sh['errors'] = []
      sh['rec'] = lambda m, d: sh['delivered'].append((m, d[0], d[1]))
      events.metricReceived.addHandler(sh['rec'])
      tlog.addObserver(lambda ev: sh['errors'].append(1) if ev.get('isError') else None)
      sh['protocols'] = protocols

      class FixedClock(object):       # own the clock: a timestamp of -1 is replaced by "now"
        @staticmethod
        def time():
          return 1700000123.75
      protocols.time = FixedClock
      sh['stats'] = instrumentation.stats
      from twisted.internet.testing import StringTransport
      sh['StringTransport'] = StringTransport
    return sh

  def __init__(self, kind):
    sh = self.shared()
    self.sh = sh
    del sh['delivered'][:]
    del sh['errors'][:]
    sh['stats'].clear()
    from carbon import state, events
    state.connectedMetricReceiverProtocols.clear()
    dh = env._default_handlers()
    if sh['rec'] not in events.metricReceived.handlers:    # another rig reset carbon's handler lists
      events.metricReceived.addHandler(sh['rec'])
    # receivers of earlier executions never see connectionLost: drop their pause/resume subscriptions
    del events.pauseReceivingMetrics.handlers[dh['pauseReceivingMetrics']:]
    del events.resumeReceivingMetrics.handlers[dh['resumeReceivingMetrics']:]
    P = sh['protocols']
    self.kind = kind
    self.proto = (kind if callable(kind) else {'line': P.MetricLineReceiver, 'pickle': P.MetricPickleReceiver}[kind])()
    self.transport = sh['StringTransport']()
    self.proto.makeConnection(self.transport)
    self.exc = None

  def feed(self, data):
    if self.exc is not None or not data:
      return
    try:
      self.proto.dataReceived(data)
    except Exception as e:   # noqa
      self.exc = e

  def observable(self):
    return (tuple((m, repr(ts), repr(v)) for m, ts, v in self.sh['delivered']),
            repr(self.exc) if self.exc is not None else None, bool(self.transport.disconnecting))

  def canon(self):
    if self.exc is not None:
      # an exception escaped the handler: Twisted drops the connection, buffers no longer matter
      return ('escaped', self.observable())
    skip = ('transport', 'factory', 'unpickler')
    vs = []
    for k, v in sorted(vars(self.proto).items()):
      if k in skip:
        continue
      if isinstance(v, (bytes, str, int, float, bool, type(None), tuple)):
        vs.append((k, repr(v)))
      elif isinstance(v, (bytearray, list)):
        vs.append((k, repr(bytes(v) if isinstance(v, bytearray) else v)))
      else:
        vs.append((k, type(v).__name__))
    return (tuple(vs), self.observable(), len(self.sh['errors']), tuple(sorted(self.sh['stats'].items())),
            self.transport.producerState)


def explore_stream(kind, stream, max_cuts, offsets=None):
  """Returns dict(states, transitions, executions, final observable or None, divergence or None)."""
  N = len(stream)
  allowed = sorted(set(o for o in (offsets if offsets is not None else range(1, N + 1)) if 0 < o <= N) | {N})
  # explicit-state search: a state is (offset, canonical receiver state); it is re-materialised by
  # replaying the cut list that first reached it.  Normally every offset has exactly one state.
  states = {}          # (offset, canon) -> cuts that reach it
  by_offset = {}
  work = []
  for p in allowed:
    r = Receiver(kind)
    r.feed(stream[:p])
    k = (p, r.canon())
    if k not in states:
      states[k] = (p,)
      by_offset.setdefault(p, []).append(k)
      work.append(k)
  transitions = len(allowed)
  r = Receiver(kind)
  r.feed(stream)
  final_obs = r.observable()
  while work:
    p, canon_p = work.pop()
    if p == N:
      continue
    cuts = states[(p, canon_p)]
    for q in allowed:
      if q <= p:
        continue
      r = Receiver(kind)
      prev = 0
      for c in cuts:
        r.feed(stream[prev:c])
        prev = c
      if r.canon() != canon_p:
        raise core.HarnessError('NONDETERMINISM: cuts %r reached two different states' % (cuts,))
      r.feed(stream[p:q])
      transitions += 1
      k = (q, r.canon())
      if k not in states:
        states[k] = cuts + (q,)
        by_offset.setdefault(q, []).append(k)
        work.append(k)
        if len(by_offset[q]) > 6:
          raise core.HarnessError('segx: more than 6 distinct receiver states at offset %d - canonical form too fine' % q)
        if q == N and r.observable() != final_obs:
          return {'states': len(states), 'transitions': transitions, 'executions': transitions, 'final': final_obs,
                  'divergence': {'cuts': [c for c in cuts + (q,) if c < N], 'observable_cut': repr(r.observable())[:400],
                                 'observable_whole': repr(final_obs)[:400]}}
  # belt and braces: direct enumeration of all segmentations with <= max_cuts cuts, and byte by byte
  execs = 0
  for k in range(1, max_cuts + 1):
    for cuts in itertools.combinations([o for o in allowed if o < N], k):
      r = Receiver(kind)
      prev = 0
      for c in cuts + (N,):
        r.feed(stream[prev:c])
        prev = c
      execs += 1
      if r.observable() != final_obs:
        return {'states': len(states), 'transitions': transitions, 'executions': transitions + execs, 'final': final_obs,
                'divergence': {'cuts': list(cuts), 'observable_cut': repr(r.observable())[:400], 'observable_whole': repr(final_obs)[:400]}}
  r = Receiver(kind)
  for i in range(N):
    r.feed(stream[i:i + 1])
  execs += 1
  if r.observable() != final_obs:
    return {'states': len(states), 'transitions': transitions, 'executions': transitions + execs, 'final': final_obs,
            'divergence': {'cuts': 'every byte', 'observable_cut': repr(r.observable())[:400], 'observable_whole': repr(final_obs)[:400]}}
  return {'states': len(states), 'transitions': transitions, 'executions': transitions + execs, 'final': final_obs,
          'divergence': None, 'final_raw': list(r.sh['delivered']), 'exc': r.exc,
          'max_states_per_offset': max(len(v) for v in by_offset.values()) if by_offset else 0}


def run_cuts(kind, stream, cuts):
  r = Receiver(kind)
  prev = 0
  if cuts == 'every byte':
    cuts = list(range(1, len(stream)))
  for c in list(cuts) + [len(stream)]:
    r.feed(stream[prev:c])
    prev = c
  return r


def run_with_pause(kind, stream, k, cuts=(), then='resume'):
  """Feed `stream` (cut at `cuts`) while flow control pauses the receivers during the delivery of the k-th
  datapoint (events.pauseReceivingMetrics fired from inside the pipeline, as a full cache or send queue does)
  and resumes them after the last byte: bytes that the process has already read must still be delivered."""
  from carbon import events
  r = Receiver(kind)
  seen = [0]

  def pauser(metric, datapoint):
    seen[0] += 1
    if seen[0] == k:
      events.pauseReceivingMetrics()
  events.metricReceived.addHandler(pauser)
  try:
    prev = 0
    for c in list(cuts) + [len(stream)]:
      r.feed(stream[prev:c])
      prev = c
    if then == 'resume':
      events.resumeReceivingMetrics()
    else:
      # the peer closes (or the daemon shuts down) while the receivers are still paused: what the process has
      # already read must not die with the connection
      from twisted.python.failure import Failure
      from twisted.internet.error import ConnectionDone
      try:
        r.proto.connectionLost(Failure(ConnectionDone()))
      except Exception as e:   # noqa
        r.exc = r.exc or e
      events.resumeReceivingMetrics()
  finally:
    events.metricReceived.removeHandler(pauser)
  return r
