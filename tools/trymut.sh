#!/bin/bash
# usage: tools/trymut.sh <patch.diff> <ID> [<ID>...]
# Run checks against a seeded change.  Default: the change is applied to a snapshot of /repo's working tree
# under /dev/shm (VERIF_REPO points the checks at it; /repo itself is never touched, so this is safe while other
# checks run).  VERIF_INPLACE=1: apply to /repo itself, run, and undo (git checkout) afterwards.
set -u
patch="$(realpath "$1")"; shift
if [ "${VERIF_INPLACE:-0}" = 1 ]; then
  cd /repo || exit 3
  if ! git diff --quiet; then echo "/repo has uncommitted changes - refusing"; exit 3; fi
  if ! git apply --check "$patch" 2>/dev/null; then echo "patch does not apply: $patch"; exit 3; fi
  git apply "$patch"
  trap 'git -C /repo checkout -- . ; git -C /repo clean -fdq lib; rm -rf "${VERIF_EVIDENCE_DIR:-/nonexistent}"' EXIT
else
  snap=$(mktemp -d /dev/shm/verif-snap.XXXXXX)
  trap 'rm -rf "$snap" "${VERIF_EVIDENCE_DIR:-/nonexistent}"' EXIT
  rsync -a --exclude .git --exclude '__pycache__' /repo/ "$snap"/
  cd "$snap" || exit 3
  if ! git apply --check "$patch" 2>/dev/null; then echo "patch does not apply: $patch"; exit 3; fi
  git apply "$patch"
  export VERIF_REPO="$snap"
fi
cd /verif
export VERIF_EVIDENCE_DIR=$(mktemp -d /dev/shm/verif-mut-evidence.XXXXXX)
rc_all=0
for id in "$@"; do
  out=$(VERIF_WORKER_MEM_GB=${VERIF_WORKER_MEM_GB:-6} ./vcheck "$id" --tier "${VERIF_TIER:-quick}" 2>&1); rc=$?
  echo "== $id rc=$rc :: $(echo "$out" | grep -E 'VIOLATION|HARNESS|KNOWN-FINDING' | head -3 | cut -c1-300)"
  echo "$out" | grep -E "counterexample" | head -2 | cut -c1-400
  if [ $rc -ge 2 ]; then echo "--- harness error output (tail) ---"; echo "$out" | tail -25 | cut -c1-300; echo "---"; fi
  [ $rc -ne 0 ] && rc_all=1
done
exit $rc_all
