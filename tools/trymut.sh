#!/bin/bash
# usage: tools/trymut.sh <patch.diff> <ID> [<ID>...]   - apply a seeded change to /repo, run the checks, undo it
set -u
patch="$(realpath "$1")"; shift
cd /repo || exit 3
if ! git diff --quiet; then echo "/repo has uncommitted changes - refusing"; exit 3; fi
if ! git apply --check "$patch" 2>/dev/null; then echo "patch does not apply: $patch"; exit 3; fi
git apply "$patch"
trap 'git -C /repo checkout -- . ; git -C /repo clean -fdq lib; rm -rf "${VERIF_EVIDENCE_DIR:-/nonexistent}"' EXIT
cd /verif
export VERIF_EVIDENCE_DIR=$(mktemp -d /tmp/verif-mut-evidence.XXXXXX)
rc_all=0
for id in "$@"; do
  out=$(./vcheck "$id" --tier "${VERIF_TIER:-quick}" 2>&1); rc=$?
  echo "== $id rc=$rc :: $(echo "$out" | grep -E 'VIOLATION|HARNESS|KNOWN-FINDING' | head -3 | cut -c1-300)"
  echo "$out" | grep -E "counterexample" | head -2 | cut -c1-400
  [ $rc -ne 0 ] && rc_all=1
done
exit $rc_all
