#!/usr/bin/env python3
"""Regenerate seeded/RESULTS.md from the meta.json files."""
import glob, json, os
V = os.path.dirname(os.path.dirname(os.path.abspath(__file__)))
rows = []
for p in sorted(glob.glob(os.path.join(V, 'seeded', '*', 'meta.json'))):
  m = json.load(open(p))
  rows.append('| %s | %s | %s | %s | %s |' % (m['name'], m['property'], 'yes' if m.get('confirmed') else 'NO',
              ', '.join(m.get('caught_by') or []) or ('n/a - no daemon execution differs' if m.get('equivalent_in_daemon') else ('n/a - the statement does not decide it' if m.get('outside_statement') else '**none**')), (m.get('strengthened') or (m.get('first_counterexample') or '')[:140]).replace('|', '/')))
open(os.path.join(V, 'seeded', 'RESULTS.md'), 'w').write(
  '# Independently seeded changes\n\nEach change was written by a fresh sub-agent that saw only the property text and a scratch worktree. '
  '"confirmed" = the repository tests still pass with it and its demo fails with / passes without it (tools/seedcheck.py).\n\n'
  '| change | property | confirmed | caught by (quick tier) | first counterexample / what was strengthened |\n|---|---|---|---|---|\n' + '\n'.join(rows) + '\n')
print(len(rows), 'rows')
