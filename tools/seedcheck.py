#!/usr/bin/env python3
"""tools/seedcheck.py <PROPERTY-ID> <agent-worktree> <name> [extra check ids...]

Confirms an independently seeded change and files it under /verif/seeded/<name>/:
  1. fresh scratch worktree of /repo HEAD (outside /repo and /verif), baseline tests
  2. apply patch.diff there: tests again (the stable 179 must still pass, nothing new may fail)
  3. demo.py with the change (must fail) and without it (must pass)
  4. run the registered quick check(s) of /verif against /repo with the patch applied (tools/trymut.sh)
  5. write meta.json; the scratch worktree is removed.
"""
import json
import os
import re
import shutil
import subprocess
import sys
import time

VERIF = os.path.dirname(os.path.dirname(os.path.abspath(__file__)))
PYTEST = ['/venv/bin/python', '-m', 'pytest', '-q', '-p', 'no:cacheprovider', '--timeout=900', '--continue-on-collection-errors']


def sh(cmd, cwd=None, env=None, timeout=1800):
  r = subprocess.run(cmd, cwd=cwd, env=env, capture_output=True, text=True, timeout=timeout)
  return r.returncode, r.stdout + r.stderr


def tests(wt):
  rc, out = sh(PYTEST + ['-rA'], cwd=wt)
  passed = set(re.findall(r'^PASSED (\S+)', out, re.M))
  failed = set(re.findall(r'^(?:FAILED|ERROR) (\S+)', out, re.M))
  tail = out.strip().splitlines()[-1] if out.strip() else ''
  return passed, failed, tail


def main():
  prop, agent_wt, name = sys.argv[1], sys.argv[2], sys.argv[3]
  checks = [prop] + sys.argv[4:]
  dest = os.path.join(VERIF, 'seeded', name)
  os.makedirs(dest, exist_ok=True)
  seed = os.path.join(agent_wt, 'seed')
  # the patch as the agent left it (regenerated from the worktree when possible, restricted to lib/carbon sources)
  rc, diff = sh(['git', 'diff', '--', 'lib/carbon'], cwd=agent_wt)
  if not diff.strip() and os.path.exists(os.path.join(seed, 'patch.diff')):
    diff = open(os.path.join(seed, 'patch.diff')).read()
  if '/tests/' in diff:
    print('REJECT: the patch touches test files')
    return 1
  open(os.path.join(dest, 'patch.diff'), 'w').write(diff)
  for f in ('demo.py', 'NOTES.md'):
    if os.path.exists(os.path.join(seed, f)):
      shutil.copy(os.path.join(seed, f), os.path.join(dest, f))
  wt = '/tmp/wtv/%s' % name
  shutil.rmtree(wt, ignore_errors=True)
  os.makedirs('/tmp/wtv', exist_ok=True)
  sh(['git', '-C', '/repo', 'worktree', 'prune'])
  rc, out = sh(['git', '-C', '/repo', 'worktree', 'add', '-q', '--detach', wt, 'HEAD'])
  meta = {'property': prop, 'name': name, 'repo_head': sh(['git', '-C', '/repo', 'rev-parse', '--short', 'HEAD'])[1].strip(),
          'confirmed_at': time.strftime('%Y-%m-%d %H:%M:%S')}
  try:
    base_pass, base_fail, base_tail = tests(wt)
    env = dict(os.environ, PYTHONPATH=os.path.join(wt, 'lib'), PYTHONDONTWRITEBYTECODE='1')
    demo = os.path.join(dest, 'demo.py')
    demo_src = open(demo).read().replace(agent_wt, wt)
    demo_run = os.path.join(wt, 'seed_demo.py')
    open(demo_run, 'w').write(demo_src)
    rc0, out0 = sh(['/venv/bin/python', demo_run], cwd=wt, env=env, timeout=600)
    rc, out = sh(['git', 'apply', os.path.join(dest, 'patch.diff')], cwd=wt)
    if rc:
      print('REJECT: patch does not apply to /repo HEAD: %s' % out)
      meta['rejected'] = 'patch does not apply'
      return 1
    mut_pass, mut_fail, mut_tail = tests(wt)
    rc1, out1 = sh(['/venv/bin/python', demo_run], cwd=wt, env=env, timeout=600)
    meta['tests_baseline'] = base_tail
    meta['tests_with_change'] = mut_tail
    meta['tests_newly_failing'] = sorted(base_pass - mut_pass)
    meta['demo_without_change_exit'] = rc0
    meta['demo_with_change_exit'] = rc1
    meta['demo_with_change_output_tail'] = out1.strip().splitlines()[-6:]
    ok = (not (base_pass - mut_pass)) and len(mut_pass) >= 179 and rc0 == 0 and rc1 != 0
    meta['confirmed'] = ok
    print('baseline: %s | with change: %s | newly failing: %d | demo without=%d with=%d -> %s' % (
      base_tail, mut_tail, len(base_pass - mut_pass), rc0, rc1, 'CONFIRMED' if ok else 'NOT CONFIRMED'))
    if not ok:
      print(out0[-600:] if rc0 else out1[-600:])
  finally:
    sh(['git', '-C', '/repo', 'worktree', 'remove', '--force', wt])
    shutil.rmtree(wt, ignore_errors=True)
  # my checks against /repo with the change applied
  results = {}
  rc, out = sh([os.path.join(VERIF, 'tools', 'trymut.sh'), os.path.join(dest, 'patch.diff')] + checks, cwd=VERIF, timeout=3600)
  print(out[-1500:])
  for m in re.finditer(r'^== (C\d+) rc=(\d+)', out, re.M):
    results[m.group(1)] = int(m.group(2))
  meta['checks_run'] = ['./vcheck %s --tier quick' % c for c in checks]
  meta['check_exit_codes'] = results
  meta['caught_by'] = sorted(c for c, r in results.items() if r == 1)
  first = re.search(r'counterexample (.*)', out)
  meta['first_counterexample'] = first.group(1)[:400] if first else None
  notes = os.path.join(dest, 'NOTES.md')
  if os.path.exists(notes):
    txt = open(notes).read()
    meta['needs_to_manifest'] = ' '.join(txt.split())[:600]
  json.dump(meta, open(os.path.join(dest, 'meta.json'), 'w'), indent=1)
  print('caught by:', meta['caught_by'] or 'NONE')
  return 0


if __name__ == '__main__':
  sys.exit(main())
