#!/bin/bash
# usage: tools/run_mutants.sh [dir=mutants]   - run every <check>_<name>.diff against the check(s) named by its prefix
# and write <dir>/RESULTS.md.  A file mutants/<name>.checks may list extra check ids (space separated).
cd /verif
dir="${1:-mutants}"
out="$dir/RESULTS.md"
echo "| change | checks run | caught by | first counterexample |" > "$out.tmp"
echo "|---|---|---|---|" >> "$out.tmp"
for f in "$dir"/*.diff; do
  b=$(basename "$f" .diff)
  ids=$(echo "$b" | sed -E 's/^(c[0-9]+)_.*/\1/' | tr a-z A-Z)
  [ -f "$dir/$b.checks" ] && ids="$(cat "$dir/$b.checks")"
  res=$(tools/trymut.sh "$f" $ids 2>&1)
  caught=$(echo "$res" | grep -E "^== .* rc=1" | sed -E 's/^== (C[0-9]+) .*/\1/' | tr '\n' ' ')
  errs=$(echo "$res" | grep -E "^== .* rc=[23]" | sed -E 's/^== (C[0-9]+) rc=([0-9]).*/\1(exit \2)/' | tr '\n' ' ')
  if echo "$res" | grep -q "patch does not apply"; then caught="**STALE: patch does not apply** "; fi
  first=$(echo "$res" | grep "counterexample" | head -1 | sed 's/  counterexample //' | cut -c1-160 | tr '|' '/')
  echo "| $b | $ids | ${caught:-**none**} $errs | $first |" >> "$out.tmp"
  echo "$b -> ${caught:-MISSED} $errs"
done
mv "$out.tmp" "$out"
