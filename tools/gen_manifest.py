#!/usr/bin/env python3
"""Regenerate /verif/MANIFEST.json from mc/checks/*.py (module constant MANIFEST) and validate it."""
import importlib
import json
import os
import sys

HERE = os.path.dirname(os.path.dirname(os.path.abspath(__file__)))
sys.path.insert(0, HERE)

ALL = ['C%02d' % i for i in range(1, 21)]
BASELINE = json.load(open('/root/.vp/BASELINE.json'))['cmd'].replace('--junitxml=<file>', '').strip()

ENGINES = [
  {'name': 'segx', 'path': 'mc/segx.py', 'serves_properties': ['C01', 'C11', 'C15'],
   'kind_free_text': 'explicit-state search over all segmentations of a byte stream fed to the real '
                     'Twisted receiver (state = offset x canonical receiver state)'},
  {'name': 'thrx', 'path': 'mc/thrx.py', 'serves_properties': ['C02', 'C03', 'C04', 'C09', 'C10', 'C17'],
   'kind_free_text': 'stateless exploration of real-thread interleavings (sys.settrace + baton), '
                     'iterative preemption bounding, fault/data choice points'},
  {'name': 'evx', 'path': 'mc/evx.py', 'serves_properties': ['C06', 'C07', 'C08', 'C09', 'C20'],
   'kind_free_text': 'breadth-first explicit-state search over event histories of the real objects on fake '
                     'I/O, reference model in lock-step'},
  {'name': 'enumx', 'path': 'mc/core.py', 'serves_properties': ['C05', 'C12', 'C13', 'C14', 'C15', 'C16', 'C18', 'C19'],
   'kind_free_text': 'bounded-exhaustive enumeration of an explicit finite product of inputs x configurations '
                     'against a reference evaluator'},
]


def main():
  checks = []
  na = []
  for pid in ALL:
    path = os.path.join(HERE, 'mc', 'checks', pid.lower() + '.py')
    if not os.path.exists(path):
      na.append({'property_id': pid, 'reason': 'check not built yet in this revision (planned in DESIGN.md section 4)'})
      continue
    mod = importlib.import_module('mc.checks.' + pid.lower())
    m = getattr(mod, 'MANIFEST', None)
    if m is None or m.get('not_applicable'):
      na.append({'property_id': pid, 'reason': (m or {}).get('not_applicable', 'no MANIFEST block')})
      continue
    checks.append({
      'property_id': pid,
      'quick_cmd': './vcheck %s --tier quick' % pid,
      'thorough_cmd': './vcheck %s --tier thorough' % pid,
      'evidence_file': 'evidence/%s.json' % pid,
      'replay_cmd_template': './vcheck %s --replay {path}' % pid,
      'engine': m['engine'],
      'level_claimed': {'category': mod.LEVEL, 'text': m['text'], 'design_ref': m.get('design_ref', 'DESIGN.md section 4 ' + pid)},
      'level_note': m['note'],
      'technique': m['technique'],
    })
  manifest = {
    'version': 1,
    'setup_cmd': './vcheck selftest',
    'hooks': {
      'guard': 'CARBON_VERIF',
      'enable': 'no source hooks: every seam is a module/instance attribute rebound at run time by the '
                'harness (CARBON_VERIF=1 is exported by mc/env.py for completeness)',
      'baseline_off_cmd': BASELINE,
      'source_commits': [],
      'add_only': True,
    },
    'engines': ENGINES,
    'checks': checks,
    'not_applicable': na,
    'notes': 'All checks import carbon from /repo/lib (working tree) at run time; nothing is built or cached. '
             'Exit 2 = harness error. Known findings: KNOWN_FINDINGS.txt.',
  }
  out = os.path.join(HERE, 'MANIFEST.json')
  with open(out, 'w') as f:
    json.dump(manifest, f, indent=1)
    f.write('\n')
  try:
    import jsonschema
    jsonschema.validate(manifest, json.load(open('/root/.vp/MANIFEST.schema.json')))
    print('MANIFEST.json valid: %d checks, %d not_applicable' % (len(checks), len(na)))
  except ImportError:
    print('MANIFEST.json written (jsonschema unavailable in this interpreter; run with python3-vt)')


if __name__ == '__main__':
  main()
