#!/bin/bash
# usage: tools/run_seeded.sh [name-glob]   - re-run every seeded change against the checks recorded in its meta.json
# (property check + caught_by) and report the ones no check catches any more.  Does not modify meta.json.
cd /verif
pat="${1:-*}"
miss=0
for d in seeded/$pat/; do
  n=$(basename "$d")
  ids=$(python3 -c "
import json,sys
m=json.load(open('$d/meta.json'))
ids=m.get('caught_by') or [m['property']]
print(' '.join(ids[:1]))")
  res=$(tools/trymut.sh "$d/patch.diff" $ids 2>&1)
  if echo "$res" | grep -q "^== .* rc=1"; then echo "$n -> caught ($ids)"; else echo "$n -> MISSED ($ids) :: $(echo "$res" | head -2 | cut -c1-200)"; miss=$((miss+1)); fi
done
echo "missed: $miss"
